import GqlProofs.ValidateOverlapInv
/-! # C09 / C19: the overlap recursion never exhausts `fuelFor d`

Potential argument. `remaining` = number of memo keys of the finite universe not yet logged; every executed
`collectConflictsBetweenFieldsAndFragment` / `collectConflictsBetweenFragments` body logs a fresh key, so it strictly
decreases `remaining`, and nothing ever increases it. Between two memo bodies the only recursion is
`findConflict → findConflictsBetweenSubSelectionSets → findConflict` on strictly nested sub-selections (`localCost`).
So a call needs at most `remaining * W + localCost` levels of recursion, `W = nSets d + 2`. Needs distinct
selection-set locations (the model's stand-in for pointer identity): otherwise the cache could hand back the
collection of a different selection set. -/
namespace GqlModel.Validate.Overlap
open GqlModel.Validate GqlModel.Validate.Graph

/-! ## sizes -/

mutual
theorem length_belowSel : ∀ x : Selection, (belowSel x).length = setsSel x
  | .field _ _ _ _ sel _ => by simp only [belowSel, setsSel]; exact length_belowOpt sel
  | .spread .. => by simp [belowSel, setsSel]
  | .inline _ _ ss _ => by simp only [belowSel, setsSel]; exact length_belowSet ss
theorem length_belowSet : ∀ x : SelectionSet, (belowSet x).length = setsSet x
  | .mk sels _ => by simp only [belowSet, setsSet, List.length_cons]; rw [length_belowSels sels]; omega
theorem length_belowOpt : ∀ x : Option SelectionSet, (belowOpt x).length = setsOpt x
  | none => by simp [belowOpt, setsOpt]
  | some ss => by simp only [belowOpt, setsOpt]; exact length_belowSet ss
theorem length_belowSels : ∀ x : List Selection, (belowSels x).length = setsSels x
  | [] => by simp [belowSels, setsSels]
  | x :: xs => by
    simp only [belowSels, setsSels, List.length_append]
    rw [length_belowSel x, length_belowSels xs]
end

mutual
theorem sets_le_sel : ∀ (y : Selection) (x : SelectionSet), x ∈ belowSel y → setsSet x ≤ setsSel y
  | .field _ _ _ _ sel _, x, hx => by simp only [belowSel] at hx; simp only [setsSel]; exact sets_le_opt sel x hx
  | .spread .., x, hx => by simp [belowSel] at hx
  | .inline _ _ ss _, x, hx => by simp only [belowSel] at hx; simp only [setsSel]; exact sets_le_set ss x hx
theorem sets_le_set : ∀ (y : SelectionSet) (x : SelectionSet), x ∈ belowSet y → setsSet x ≤ setsSet y
  | .mk sels l, x, hx => by
    simp only [belowSet, List.mem_cons] at hx
    rcases hx with rfl | hx
    · exact Nat.le_refl _
    · have := sets_le_sels sels x hx
      simp only [setsSet]; omega
theorem sets_le_opt : ∀ (y : Option SelectionSet) (x : SelectionSet), x ∈ belowOpt y → setsSet x ≤ setsOpt y
  | none, x, hx => by simp [belowOpt] at hx
  | some ss, x, hx => by simp only [belowOpt] at hx; simp only [setsOpt]; exact sets_le_set ss x hx
theorem sets_le_sels : ∀ (y : List Selection) (x : SelectionSet), x ∈ belowSels y → setsSet x ≤ setsSels y
  | [], x, hx => by simp [belowSels] at hx
  | s :: rest, x, hx => by
    simp only [belowSels, List.mem_append] at hx
    simp only [setsSels]
    rcases hx with hx | hx
    · have := sets_le_sel s x hx; omega
    · have := sets_le_sels rest x hx; omega
end

theorem length_le_flatMap {α β : Type} (f : α → List β) (l : List α) (a : α) (h : a ∈ l) :
    (f a).length ≤ (l.flatMap f).length := by
  induction l with
  | nil => cases h
  | cons x xs ih =>
    simp only [List.flatMap_cons, List.length_append]
    rcases List.mem_cons.1 h with rfl | h
    · omega
    · have := ih h; omega

theorem setsSet_le_nSets {d : Document} {ss : SelectionSet} (h : ss ∈ allSets d) : setsSet ss ≤ nSets d := by
  simp only [allSets, List.mem_flatMap] at h
  rcases h with ⟨r, hr, hss⟩
  have h1 := sets_le_set r ss hss
  have h2 := length_le_flatMap belowSet (rootSets d) r hr
  rw [length_belowSet] at h2
  exact Nat.le_trans h1 h2

/-- fields collected from a selection set carry strictly smaller sub-selections -/
def AccBelow (n : Nat) (fields : List (String × List FieldOcc)) : Prop :=
  ∀ kf, kf ∈ fields → ∀ a, a ∈ kf.2 → setsOpt a.node.sel + 1 ≤ n

theorem addField_below (n : Nat) (m : List (String × List FieldOcc)) (k : String) (o : FieldOcc)
    (hm : AccBelow n m) (ho : setsOpt o.node.sel + 1 ≤ n) : AccBelow n (addField m k o) := by
  induction m with
  | nil =>
    intro kf hkf a ha
    simp only [addField, List.mem_singleton] at hkf
    subst hkf
    simp only [List.mem_singleton] at ha
    exact ha ▸ ho
  | cons p rest ih =>
    obtain ⟨k', os⟩ := p
    have hrest : AccBelow n rest := fun kf hkf => hm kf (List.mem_cons_of_mem _ hkf)
    unfold addField
    split
    · intro kf hkf a ha
      rcases List.mem_cons.1 hkf with rfl | hkf
      · rcases List.mem_append.1 ha with ha | ha
        · exact hm (k', os) List.mem_cons_self a ha
        · simp only [List.mem_singleton] at ha
          exact ha ▸ ho
      · exact hrest kf hkf a ha
    · intro kf hkf a ha
      rcases List.mem_cons.1 hkf with rfl | hkf
      · exact hm (k', os) List.mem_cons_self a ha
      · exact ih hrest kf hkf a ha

mutual
theorem collectSel_below (e : Env) (n : Nat) : ∀ (pt : Option String) (x : Selection) (acc : Acc),
    setsSel x + 1 ≤ n → AccBelow n acc.fields → AccBelow n (collectSel e pt x acc).fields
  | pt, .field a nm args ds sel l, acc, hn, hacc => by
    simp only [collectSel]
    exact addField_below n _ _ _ hacc (by simpa [setsSel] using hn)
  | pt, .spread nm ds l, acc, _, hacc => by
    simp only [collectSel]
    split <;> exact hacc
  | pt, .inline tc ds ss l, acc, hn, hacc => by
    simp only [collectSel]
    exact collectSet_below e n _ ss acc (by simp only [setsSel] at hn; omega) hacc
theorem collectSet_below (e : Env) (n : Nat) : ∀ (pt : Option String) (x : SelectionSet) (acc : Acc),
    setsSet x ≤ n → AccBelow n acc.fields → AccBelow n (collectSet e pt x acc).fields
  | pt, .mk sels l, acc, hn, hacc => by
    simp only [collectSet]
    exact collectSels_below e n pt sels acc (by simp only [setsSet] at hn; omega) hacc
theorem collectSels_below (e : Env) (n : Nat) : ∀ (pt : Option String) (x : List Selection) (acc : Acc),
    setsSels x + 1 ≤ n → AccBelow n acc.fields → AccBelow n (collectSels e pt x acc).fields
  | pt, [], acc, _, hacc => by simpa [collectSels] using hacc
  | pt, x :: xs, acc, hn, hacc => by
    simp only [collectSels]
    simp only [setsSels] at hn
    exact collectSels_below e n pt xs _ (by omega) (collectSel_below e n pt x acc (by omega) hacc)
end

theorem collectInfo_below (e : Env) (pt : Option String) (ss : SelectionSet) :
    AccBelow (setsSet ss) (collectInfo e pt ss).fields :=
  collectSet_below e (setsSet ss) pt ss ⟨[], []⟩ (Nat.le_refl _) (by intro kf hkf; cases hkf)

/-! ## distinct locations: the cache returns the collection of the selection set asked for -/

theorem eq_of_loc_eq {l : List SelectionSet} (hnd : (l.map (·.loc)).Nodup) {x y : SelectionSet}
    (hx : x ∈ l) (hy : y ∈ l) (h : x.loc = y.loc) : x = y := by
  induction l with
  | nil => cases hx
  | cons z zs ih =>
    simp only [List.map_cons, List.nodup_cons] at hnd
    rcases List.mem_cons.1 hx with hxz | hx' <;> rcases List.mem_cons.1 hy with hyz | hy'
    · rw [hxz, hyz]
    · have : z.loc ∈ zs.map (·.loc) := List.mem_map.2 ⟨y, hy', by rw [← h, hxz]⟩
      exact absurd this hnd.1
    · have : z.loc ∈ zs.map (·.loc) := List.mem_map.2 ⟨x, hx', by rw [h, hyz]⟩
      exact absurd this hnd.1
    · exact ih hnd.2 hx' hy'

variable {d : Document} {e : Env}

theorem getInfo_exact (hloc : locsDistinct d = true) {st : OState} (hinv : Inv d e st) (pt : Option String)
    {ss : SelectionSet} (hss : ss ∈ allSets d) : ∃ pt', (getInfo e pt ss st).2 = collectInfo e pt' ss := by
  unfold getInfo
  split
  · rename_i i hi
    rcases hinv.cacheExact _ (lookup_mem' _ _ _ hi) with ⟨ss', pt', hss', hl, he⟩
    have : ss = ss' := eq_of_loc_eq (of_decide_eq_true hloc) hss hss' hl
    subst this
    exact ⟨pt', he⟩
  · exact ⟨pt, rfl⟩

theorem getInfo_logs (pt : Option String) (ss : SelectionSet) (st : OState) :
    (getInfo e pt ss st).1.logFF = st.logFF ∧ (getInfo e pt ss st).1.logBF = st.logBF ∧
    (getInfo e pt ss st).1.oof = st.oof := by
  unfold getInfo
  split <;> exact ⟨rfl, rfl, rfl⟩

/-! ## the potential -/

def remaining (d : Document) (e : Env) (st : OState) : Nat :=
  ((univFF d).length - st.logFF.length) + ((univBF e.tbl).length - st.logBF.length)

def localCost : Call → Nat
  | .fc _ _ a _ => setsOpt a.node.sel + 1
  | _ => 0

def need (d : Document) (R : Nat) (c : Call) : Nat := R * (nSets d + 2) + localCost c

/-- the logs only grow, `oof` is untouched -/
structure Grows (st st' : OState) : Prop where
  ff : st.logFF.length ≤ st'.logFF.length
  bf : st.logBF.length ≤ st'.logBF.length
  oof : st'.oof = st.oof

theorem Grows.refl (st : OState) : Grows st st := ⟨Nat.le_refl _, Nat.le_refl _, rfl⟩

theorem Grows.trans {a b c : OState} (h1 : Grows a b) (h2 : Grows b c) : Grows a c :=
  ⟨Nat.le_trans h1.ff h2.ff, Nat.le_trans h1.bf h2.bf, h2.oof.trans h1.oof⟩

theorem Grows.remaining {st st' : OState} (h : Grows st st') : remaining d e st' ≤ remaining d e st := by
  unfold Overlap.remaining
  have := h.ff
  have := h.bf
  omega

theorem need_mono {R R' : Nat} (h : R ≤ R') (c : Call) : need d R c ≤ need d R' c := by
  unfold need
  have := Nat.mul_le_mul_right (nSets d + 2) h
  omega

theorem localCost_le_of_wf {c : Call} (h : WFCall d c) : localCost c ≤ nSets d + 1 := by
  cases c with
  | fc excl key a b =>
    simp only [localCost]
    cases hs : a.node.sel with
    | none => simp [setsOpt]
    | some ss =>
      have := setsSet_le_nSets (h.1 ss hs)
      simp only [setsOpt]; omega
  | ff => simp [localCost]
  | bf => simp [localCost]

def FuelSpec (d : Document) (e : Env) (fuel : Nat) (rec : Rec) : Prop :=
  ∀ c st, Inv d e st → WFCall d c → need d (remaining d e st) c < fuel → Grows st (rec c st).1

theorem seqCalls_fuel {rec : Rec} {fuel : Nat}
    (hrecI : ∀ c st, WFCall d c → Inv d e st → Inv d e (rec c st).1) (hrecF : FuelSpec d e fuel rec)
    (cs : List Call) (R0 : Nat) (hcs : ∀ c, c ∈ cs → WFCall d c ∧ need d R0 c < fuel)
    (st : OState) (hinv : Inv d e st) (hR : remaining d e st ≤ R0) : Grows st (seqCalls rec cs st).1 := by
  induction cs generalizing st with
  | nil => exact Grows.refl _
  | cons c cs ih =>
    simp only [seqCalls]
    have hc := hcs c List.mem_cons_self
    have g1 := hrecF c st hinv hc.1 (Nat.lt_of_le_of_lt (need_mono hR c) hc.2)
    have i1 := hrecI c st hc.1 hinv
    exact g1.trans (ih (fun c' h => hcs c' (List.mem_cons_of_mem _ h)) _ i1
      (Nat.le_trans g1.remaining hR))

theorem betweenCalls_cost (excl : Bool) (i1 i2 : FieldsInfo) (n : Nat) (h1 : AccBelow n i1.fields) :
    ∀ c, c ∈ betweenCalls excl i1 i2 → localCost c ≤ n := by
  intro c hc
  simp only [betweenCalls, List.mem_flatMap] at hc
  rcases hc with ⟨kf, hkf, hc⟩
  split at hc
  · cases hc
  · simp only [List.mem_flatMap, List.mem_map] at hc
    rcases hc with ⟨a, ha, b, _, rfl⟩
    exact h1 kf hkf a ha

theorem mem_ff_map {excl : Bool} {i : FieldsInfo} {fs : List String} {c : Call}
    (h : c ∈ fs.map (fun f => Call.ff excl i f)) : localCost c = 0 := by
  rcases List.mem_map.1 h with ⟨f, _, rfl⟩; rfl

theorem ssBody_fuel (hloc : locsDistinct d = true) {rec : Rec} {fuel : Nat}
    (hrecI : ∀ c st, WFCall d c → Inv d e st → Inv d e (rec c st).1) (hrecF : FuelSpec d e fuel rec)
    (excl : Bool) (p1 p2 : Option String) {s1 s2 : SelectionSet} (h1 : s1 ∈ allSets d) (h2 : s2 ∈ allSets d)
    (st : OState) (hinv : Inv d e st) (hfuel : remaining d e st * (nSets d + 2) + setsSet s1 < fuel) :
    Grows st (ssBody e rec excl p1 s1 p2 s2 st).1 := by
  have g1 := getInfo_inv hinv p1 h1
  have g2 := getInfo_inv g1.1 p2 h2
  have l1 := getInfo_logs (e := e) p1 s1 st
  have l2 := getInfo_logs (e := e) p2 s2 (getInfo e p1 s1 st).1
  rcases getInfo_exact hloc hinv p1 h1 with ⟨pt', hex⟩
  have hbelow : AccBelow (setsSet s1) (getInfo e p1 s1 st).2.fields := by rw [hex]; exact collectInfo_below e pt' s1
  have hg0 : Grows st (getInfo e p2 s2 (getInfo e p1 s1 st).1).1 :=
    ⟨by rw [l2.1, l1.1]; exact Nat.le_refl _, by rw [l2.2.1, l1.2.1]; exact Nat.le_refl _, l2.2.2.trans l1.2.2⟩
  unfold ssBody
  refine hg0.trans (seqCalls_fuel hrecI hrecF _ (remaining d e st) (fun c hc => ?_) _ g2.1 hg0.remaining)
  simp only [List.mem_append, List.mem_map, List.mem_flatMap] at hc
  unfold need
  rcases hc with ((hc | ⟨f, hf, rfl⟩) | ⟨f, hf, rfl⟩) | ⟨f1, _, f2, _, rfl⟩
  · have := betweenCalls_cost excl _ _ _ hbelow c hc
    exact ⟨betweenCalls_wf excl g1.2 g2.2 c hc, by omega⟩
  · exact ⟨⟨g1.2, g2.2.2.1 f hf⟩, by simp only [localCost]; omega⟩
  · exact ⟨⟨g2.2, g1.2.2.1 f hf⟩, by simp only [localCost]; omega⟩
  · exact ⟨trivial, by simp only [localCost]; omega⟩

theorem fcBody_fuel (hloc : locsDistinct d = true) {rec : Rec} {fuel : Nat}
    (hrecI : ∀ c st, WFCall d c → Inv d e st → Inv d e (rec c st).1) (hrecF : FuelSpec d e fuel rec)
    (pexcl : Bool) (key : String) {a b : FieldOcc} (ha : WFOcc d a) (hb : WFOcc d b) (st : OState)
    (hinv : Inv d e st) (hfuel : need d (remaining d e st) (.fc pexcl key a b) < fuel + 1) :
    Grows st (fcBody e rec pexcl key a b st).1 := by
  have hg0 : Grows st { st with nFC := st.nFC + 1 } := ⟨Nat.le_refl _, Nat.le_refl _, rfl⟩
  unfold fcBody
  simp only
  split
  · exact hg0
  · split
    · exact hg0
    · split
      · exact hg0
      · split
        · rename_i s1 s2 hs1 hs2
          refine hg0.trans (ssBody_fuel hloc hrecI hrecF _ _ _ (ha s1 hs1) (hb s2 hs2) _ (hinv.withFC _) ?_)
          have : remaining d e { st with nFC := st.nFC + 1 } = remaining d e st := rfl
          rw [this]
          simp only [need, localCost, hs1, setsOpt] at hfuel
          omega
        · exact hg0

theorem ffBody_fuel (hT : ∀ f, f ∈ e.tbl → f.sel ∈ allSets d) {rec : Rec} {fuel : Nat}
    (hrecI : ∀ c st, WFCall d c → Inv d e st → Inv d e (rec c st).1) (hrecF : FuelSpec d e fuel rec)
    (excl : Bool) {info : FieldsInfo} (hi : WFInfo d info) {frag : String} (hf : frag ∈ allSpreadNames d)
    (st : OState) (hinv : Inv d e st) (hfuel : need d (remaining d e st) (.ff excl info frag) < fuel + 1) :
    Grows st (ffBody e rec excl info frag st).1 := by
  unfold ffBody
  split
  · exact Grows.refl _
  · rename_i hnew
    have hnew' : memoHas st.cmpFF (info.id, frag) excl = false := by simpa using hnew
    have hinv1 := hinv.withFF info.id frag excl hnew' hi.1 hf
    have hg1 : Grows st { st with cmpFF := ((info.id, frag), excl) :: st.cmpFF,
                                  logFF := (info.id, frag, excl) :: st.logFF } :=
      ⟨by simp, Nat.le_refl _, rfl⟩
    -- the fresh key lowers the potential by one
    have hcnt := hinv1.counts.1
    have hR : remaining d e { st with cmpFF := ((info.id, frag), excl) :: st.cmpFF,
                                      logFF := (info.id, frag, excl) :: st.logFF } + 1 ≤ remaining d e st := by
      simp only [OState.cntFF, List.length_cons, ← length_univFF] at hcnt
      simp only [remaining, List.length_cons]
      omega
    simp only
    split
    · exact hg1
    · rename_i f hl
      have g := getInfo_inv (e := e) hinv1 (namedOf e.s f.typeCond) (hT f (lookupFrag_some hl).1)
      have l := getInfo_logs (e := e) (namedOf e.s f.typeCond) f.sel
        { st with cmpFF := ((info.id, frag), excl) :: st.cmpFF, logFF := (info.id, frag, excl) :: st.logFF }
      have hg2 : Grows { st with cmpFF := ((info.id, frag), excl) :: st.cmpFF,
                                 logFF := (info.id, frag, excl) :: st.logFF }
          (getInfo e (namedOf e.s f.typeCond) f.sel
            { st with cmpFF := ((info.id, frag), excl) :: st.cmpFF, logFF := (info.id, frag, excl) :: st.logFF }).1 :=
        ⟨by rw [l.1]; exact Nat.le_refl _, by rw [l.2.1]; exact Nat.le_refl _, l.2.2⟩
      unfold getRefInfo
      split
      · exact hg1.trans hg2
      · refine hg1.trans (hg2.trans (seqCalls_fuel hrecI hrecF _ (remaining d e st - 1) (fun c hc => ?_) _ g.1 ?_))
        · simp only [List.mem_append, List.mem_map] at hc
          have hwf : WFCall d c := by
            rcases hc with hc | ⟨n, hn, rfl⟩
            · exact betweenCalls_wf excl hi g.2 c hc
            · exact ⟨hi, g.2.2.1 n hn⟩
          refine ⟨hwf, ?_⟩
          have hl := localCost_le_of_wf hwf
          have hRW : (remaining d e st - 1) * (nSets d + 2) + (nSets d + 2) = remaining d e st * (nSets d + 2) := by
            have hpos : 1 ≤ remaining d e st := by omega
            rw [← Nat.succ_mul]
            congr 1
            omega
          have h0 : localCost (Call.ff excl info frag) = 0 := rfl
          simp only [need, h0] at hfuel ⊢
          omega
        · have := hg2.remaining (d := d) (e := e)
          omega

theorem bfBody_fuel (hT : ∀ f, f ∈ e.tbl → f.sel ∈ allSets d) {rec : Rec} {fuel : Nat}
    (hrecI : ∀ c st, WFCall d c → Inv d e st → Inv d e (rec c st).1) (hrecF : FuelSpec d e fuel rec)
    (excl : Bool) (n1 n2 : String) (st : OState) (hinv : Inv d e st)
    (hfuel : need d (remaining d e st) (.bf excl n1 n2) < fuel + 1) :
    Grows st (bfBody e rec excl n1 n2 st).1 := by
  unfold bfBody
  split
  · rename_i f1 f2 hl1 hl2
    split
    · exact Grows.refl _
    · rename_i hne
      split
      · exact Grows.refl _
      · rename_i hnew
        have hnew' : memoHas st.cmpBF (n1, n2) excl = false := by simpa using hnew
        have hne' : n1 ≠ n2 := by simpa using hne
        have hinv1 := hinv.withBF n1 n2 excl hne' hnew' (lookupFrag_mem_names hl1) (lookupFrag_mem_names hl2)
        have hg1 : Grows st { st with cmpBF := ((n1, n2), excl) :: ((n2, n1), excl) :: st.cmpBF,
                                      logBF := (n1, n2, excl) :: st.logBF } :=
          ⟨Nat.le_refl _, by simp, rfl⟩
        have hcnt := hinv1.counts.2
        have hR : remaining d e { st with cmpBF := ((n1, n2), excl) :: ((n2, n1), excl) :: st.cmpBF,
                                          logBF := (n1, n2, excl) :: st.logBF } + 1 ≤ remaining d e st := by
          simp only [OState.cntBF, List.length_cons, ← length_univBF] at hcnt
          simp only [remaining, List.length_cons]
          omega
        have g1 := getInfo_inv (e := e) hinv1 (namedOf e.s f1.typeCond) (hT f1 (lookupFrag_some hl1).1)
        have g2 := getInfo_inv (e := e) g1.1 (namedOf e.s f2.typeCond) (hT f2 (lookupFrag_some hl2).1)
        have l1 := getInfo_logs (e := e) (namedOf e.s f1.typeCond) f1.sel
          { st with cmpBF := ((n1, n2), excl) :: ((n2, n1), excl) :: st.cmpBF, logBF := (n1, n2, excl) :: st.logBF }
        have l2 := getInfo_logs (e := e) (namedOf e.s f2.typeCond) f2.sel
          (getInfo e (namedOf e.s f1.typeCond) f1.sel
            { st with cmpBF := ((n1, n2), excl) :: ((n2, n1), excl) :: st.cmpBF,
                      logBF := (n1, n2, excl) :: st.logBF }).1
        have hg2 : Grows { st with cmpBF := ((n1, n2), excl) :: ((n2, n1), excl) :: st.cmpBF,
                                   logBF := (n1, n2, excl) :: st.logBF }
            (getInfo e (namedOf e.s f2.typeCond) f2.sel
              (getInfo e (namedOf e.s f1.typeCond) f1.sel
                { st with cmpBF := ((n1, n2), excl) :: ((n2, n1), excl) :: st.cmpBF,
                          logBF := (n1, n2, excl) :: st.logBF }).1).1 :=
          ⟨by rw [l2.1, l1.1]; exact Nat.le_refl _, by rw [l2.2.1, l1.2.1]; exact Nat.le_refl _,
           l2.2.2.trans l1.2.2⟩
        simp only
        unfold getRefInfo
        refine hg1.trans (hg2.trans (seqCalls_fuel hrecI hrecF _ (remaining d e st - 1) (fun c hc => ?_) _ g2.1 ?_))
        · simp only [List.mem_append, List.mem_map] at hc
          have hwf : WFCall d c := by
            rcases hc with (hc | ⟨n, _, rfl⟩) | ⟨n, _, rfl⟩
            · exact betweenCalls_wf excl g1.2 g2.2 c hc
            · trivial
            · trivial
          refine ⟨hwf, ?_⟩
          have hl := localCost_le_of_wf hwf
          have hRW : (remaining d e st - 1) * (nSets d + 2) + (nSets d + 2) = remaining d e st * (nSets d + 2) := by
            have hpos : 1 ≤ remaining d e st := by omega
            rw [← Nat.succ_mul]
            congr 1
            omega
          have h0 : localCost (Call.bf excl n1 n2) = 0 := rfl
          simp only [need, h0] at hfuel ⊢
          omega
        · have := hg2.remaining (d := d) (e := e)
          omega
  · exact Grows.refl _

/-- a call whose fuel exceeds `remaining * W + localCost` never reaches fuel 0 -/
theorem run_fuel (hloc : locsDistinct d = true) (hT : ∀ f, f ∈ e.tbl → f.sel ∈ allSets d) (fuel : Nat) :
    FuelSpec d e fuel (run e fuel) := by
  induction fuel with
  | zero => intro c st _ _ h; exact absurd h (Nat.not_lt_zero _)
  | succ fuel ih =>
    intro c st hinv hc hfuel
    have hrecI : ∀ c st, WFCall d c → Inv d e st → Inv d e (run e fuel c st).1 :=
      fun c st hc hinv => run_inv hT fuel c st hc hinv
    cases c with
    | fc excl key a b => exact fcBody_fuel hloc hrecI ih excl key hc.1 hc.2 st hinv hfuel
    | ff excl info frag => exact ffBody_fuel hT hrecI ih excl hc.1 hc.2 st hinv hfuel
    | bf excl n1 n2 => exact bfBody_fuel hT hrecI ih excl n1 n2 st hinv hfuel

theorem remaining_le (st : OState) : remaining d e st ≤ memoPotential d + (univBF e.tbl).length - 2 * (nFrags d * nFrags d) := by
  unfold remaining memoPotential
  rw [length_univFF]
  omega

theorem visitSet_fuel (hloc : locsDistinct d = true) (hT : ∀ f, f ∈ e.tbl → f.sel ∈ allSets d) (fuel : Nat)
    (hfuel : ((univFF d).length + (univBF e.tbl).length + 1) * (nSets d + 2) < fuel + 1)
    (pt : Option String) {ss : SelectionSet} (hss : ss ∈ allSets d) (st : OState) (hinv : Inv d e st) :
    Grows st (visitSet e fuel pt ss st).1 := by
  have g := getInfo_inv hinv pt hss
  have l := getInfo_logs (e := e) pt ss st
  have hg0 : Grows st (getInfo e pt ss st).1 :=
    ⟨by rw [l.1]; exact Nat.le_refl _, by rw [l.2.1]; exact Nat.le_refl _, l.2.2⟩
  unfold visitSet
  refine hg0.trans (seqCalls_fuel (run_inv hT fuel) (run_fuel hloc hT fuel) _
    ((univFF d).length + (univBF e.tbl).length) (fun c hc => ?_) _ g.1 ?_)
  · have hwf : WFCall d c := by
      rcases List.mem_append.1 hc with hc | hc
      · exact withinCalls_wf g.2 c hc
      · exact topFragCalls_wf g.2 _ g.2.2.1 c hc
    refine ⟨hwf, ?_⟩
    have hl := localCost_le_of_wf hwf
    unfold need
    have : ((univFF d).length + (univBF e.tbl).length + 1) * (nSets d + 2) =
        ((univFF d).length + (univBF e.tbl).length) * (nSets d + 2) + (nSets d + 2) := by
      rw [Nat.succ_mul]
    omega
  · unfold remaining; omega

theorem overlapRun_fuel (hloc : locsDistinct d = true) (hT : ∀ f, f ∈ e.tbl → f.sel ∈ allSets d) (fuel : Nat)
    (hfuel : ((univFF d).length + (univBF e.tbl).length + 1) * (nSets d + 2) < fuel + 1)
    (sets : List (TCtx × SelectionSet)) (hsets : ∀ cs, cs ∈ sets → cs.2 ∈ allSets d) :
    (overlapRun e fuel sets).1.oof = false := by
  unfold overlapRun
  suffices h : ∀ (acc : OState × List Conflict), Inv d e acc.1 →
      (sets.foldl (fun acc cs =>
        ((visitSet e fuel cs.1.parent cs.2 acc.1).1, acc.2 ++ (visitSet e fuel cs.1.parent cs.2 acc.1).2)) acc).1.oof
        = acc.1.oof from
    h _ (Inv.init d e)
  induction sets with
  | nil => intro acc _; rfl
  | cons cs rest ih =>
    intro acc h
    simp only [List.foldl_cons]
    rw [ih (fun x hx => hsets x (List.mem_cons_of_mem _ hx))
      ((visitSet e fuel cs.1.parent cs.2 acc.1).1, acc.2 ++ (visitSet e fuel cs.1.parent cs.2 acc.1).2)
      (visitSet_inv hT fuel cs.1.parent (hsets cs List.mem_cons_self) acc.1 h)]
    exact (visitSet_fuel hloc hT fuel hfuel cs.1.parent (hsets cs List.mem_cons_self) acc.1 h).oof

end GqlModel.Validate.Overlap
