import GqlProofs.OverlapExec3
/-! # Bridge C02 → C06, part 4: a document without overlap conflicts executes uniformly (`ExecUniform`) -/
namespace GqlModel.OverlapExec
open GqlModel GqlModel.Validate GqlModel.Validate.Graph GqlModel.Validate.Overlap GqlModel.Normalize

theorem selectOperation_mem (doc : Document) (opName : String) (dd : Definition)
    (h : Exec.selectOperation doc opName = .ok dd) : dd ∈ doc.defs := by
  unfold Exec.selectOperation at h
  cases hg : Exec.selectOperation.go opName doc.defs none with
  | error err => rw [hg] at h; cases h
  | ok o =>
    rw [hg] at h
    cases o with
    | none => simp at h
    | some d' =>
      simp only [Except.ok.injEq] at h
      subst h
      rcases go_mem opName doc.defs none d' hg with h' | h'
      · exact h'
      · cases h'

theorem rootFor_toString (s : Schema) (op : OpType) : s.rootFor op.toString = s.rootType op := by
  cases op <;> rfl

/-- the root selection set of an operation is one of the visitor's typed selection sets -/
theorem root_typed (s : Schema) (doc : Document) {op : OpType} {name : Option Name} {vars : List VarDef}
    {dirs : List Directive} {sel : SelectionSet} {loc : Loc}
    (h : Definition.operation op name vars dirs sel loc ∈ doc.defs) :
    (((TCtx.enterOp s op).enterSelSet s), sel) ∈ typedSelSets s doc := by
  simp only [typedSelSets, List.mem_flatMap]
  refine ⟨_, h, ?_⟩
  simp only [defCtx]
  cases sel with
  | mk sels l => simp [setsOfSet]

/-- **the bridge**: if no typed selection set of the document violates FieldsInSetCanMerge (fragment names unique, schema
covariant), then in every execution the groups of field nodes merged under one response key have one field name,
hereditarily — the premise `ExecUniform` of `normalized_transparent`. -/
theorem execUniform_of_noConflict (s : Schema) (doc : Document) (hcov : SchemaCov s)
    (hnd : (fragNames (fragDefs doc)).Nodup)
    (hfree : ∀ cs, cs ∈ typedSelSets s doc → FieldsInSetCanMerge (envM s doc) cs.1.parent cs.2)
    (opName : String) (inputs : Coerce.Vars) (w : Exec.World) : ExecUniform s doc opName inputs w := by
  intro op name vars dirs sel loc root v hsel hroot _ k
  have hmem := selectOperation_mem doc opName _ hsel
  have htyped := root_typed s doc hmem
  let pt := ((TCtx.enterOp s op).enterSelSet s).parent
  let U : FieldOcc → Prop := fun a => a ∈ flat (envM s doc) pt sel
  have hcompat : Compat s doc U := by
    intro a b ha hb hk hp
    exact hfree _ htyped ⟨a, b, ha, hb, hk, hp⟩
  have huok : UOK s U := fun a ha => flat_fdef s doc pt sel a ha
  have hpt : PtAdm s root pt := by
    intro m hm
    have hroot' : s.rootType op = some root := by rw [← rootFor_toString]; exact hroot
    have : m = root := by
      simp only [pt, TCtx.enterSelSet, TCtx.enterOp, TCtx.empty, hroot', Option.map_some, GType.namedName] at hm
      have key : ∀ (b : Bool), (if b = true then some root else none) = some m → m = root := by
        intro b hb
        cases b with
        | false => simp at hb
        | true => simpa using hb.symm
      exact key _ hm
    subst this
    exact ⟨fun _ => rfl, fun _ => .inl rfl⟩
  let c : Exec.Ctx := ⟨s, doc.fragments, v, w⟩
  have hg : GInv s U root (Exec.collect c root sel ([], [])).1 :=
    collect_inv s doc hnd c rfl rfl U root sel pt ([], []) hpt (subSet_flat s doc pt sel) (by intro p hp; cases hp)
  exact hu_of_ginv s doc hcov hnd c rfl rfl k root _ U huok hcompat hg

/-- the "identical arguments" half at the top level: nodes merged under one response key of the selected operation
have identical argument sets -/
theorem merged_same_args_of_noConflict (s : Schema) (doc : Document)
    (hnd : (fragNames (fragDefs doc)).Nodup)
    (hfree : ∀ cs, cs ∈ typedSelSets s doc → FieldsInSetCanMerge (envM s doc) cs.1.parent cs.2)
    (opName : String) (w : Exec.World) {op : OpType} {name : Option Name} {vars : List VarDef}
    {dirs : List Directive} {sel : SelectionSet} {loc : Loc} {root : String} (v : Coerce.Vars)
    (hsel : Exec.selectOperation doc opName = .ok (.operation op name vars dirs sel loc))
    (hroot : s.rootFor op.toString = some root) :
    ∀ p, p ∈ (Exec.collect ⟨s, doc.fragments, v, w⟩ root sel ([], [])).1 → ∀ n m, n ∈ p.2 → m ∈ p.2 →
      sameArgsS n.args m.args = true := by
  intro p hp n m hn hm
  have hmem := selectOperation_mem doc opName _ hsel
  have htyped := root_typed s doc hmem
  let pt := ((TCtx.enterOp s op).enterSelSet s).parent
  let U : FieldOcc → Prop := fun a => a ∈ flat (envM s doc) pt sel
  have hcompat : Compat s doc U := by
    intro a b ha hb hk hp
    exact hfree _ htyped ⟨a, b, ha, hb, hk, hp⟩
  have hpt : PtAdm s root pt := by
    intro x hx
    have hroot' : s.rootType op = some root := by rw [← rootFor_toString]; exact hroot
    have : x = root := by
      simp only [pt, TCtx.enterSelSet, TCtx.enterOp, TCtx.empty, hroot', Option.map_some, GType.namedName] at hx
      have key : ∀ (b : Bool), (if b = true then some root else none) = some x → x = root := by
        intro b hb
        cases b with
        | false => simp at hb
        | true => simpa using hb.symm
      exact key _ hx
    subst this
    exact ⟨fun _ => rfl, fun _ => .inl rfl⟩
  let c : Exec.Ctx := ⟨s, doc.fragments, v, w⟩
  have hg : GInv s U root (Exec.collect c root sel ([], [])).1 :=
    collect_inv s doc hnd c rfl rfl U root sel pt ([], []) hpt (subSet_flat s doc pt sel) (by intro p hp; cases hp)
  rcases hg p hp n hn with ⟨hkn, an, hrn, hun, hpn⟩
  rcases hg p hp m hm with ⟨hkm, am, hrm, hum, hpm⟩
  have := same_args s doc hcompat hun hum ((hrn.key.trans hkn).trans (hrm.key.trans hkm).symm) hpn hpm
  rw [← hrn.2.2.1, ← hrm.2.2.1]; exact this

end GqlModel.OverlapExec
