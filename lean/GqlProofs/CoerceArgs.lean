import GqlProofs.CoerceSpec
import GqlProofs.CoerceFuel
/-! C05: arguments and variables — static pre-coercion, planned arguments, spec agreement of getArgumentValues,
failure of getVariableValues. -/
set_option linter.unusedSimpArgs false
namespace GqlModel.Coerce
open Spec

def optHasVars : Option Value → Bool
  | none => false
  | some l => hasVars l

theorem hasVars_mem_list {x : Value} {ls : List Value} (h : hasVarsList ls = false) (hx : x ∈ ls) : hasVars x = false := by
  induction ls with
  | nil => cases hx
  | cons y ys ih =>
    simp only [hasVarsList, Bool.or_eq_false_iff] at h
    rcases List.mem_cons.mp hx with rfl | hx'
    · exact h.1
    · exact ih h.2 hx'

theorem hasVars_litLookup {fs : List ObjField} (h : hasVarsFields fs = false) (k : String) :
    optHasVars (litLookup fs k) = false := by
  induction fs with
  | nil => rfl
  | cons f fs ih =>
    obtain ⟨nm, v, l⟩ := f
    simp only [hasVarsFields, Bool.or_eq_false_iff] at h
    simp only [litLookup]
    cases hl : litLookup fs k with
    | some w => have := ih h.2; rw [hl] at this; simpa using this
    | none =>
      simp only [ObjField.name, ObjField.value]
      by_cases hk : (nm.value == k) = true
      · simp [hk, optHasVars, h.1]
      · simp [hk, optHasVars]

theorem fromASTStep_novars (s : Schema) (vars1 vars2 : Vars) (f g : GType → Option Value → JVal)
    (ih : ∀ t l, optHasVars l = false → f t l = g t l) :
    ∀ t l, optHasVars l = false → fromASTStep s vars1 f t l = fromASTStep s vars2 g t l := by
  intro t
  induction t with
  | nonNull t iht =>
    intro l h
    cases l with
    | none => rfl
    | some l =>
      cases l with
      | var x loc => simp [optHasVars, hasVars] at h
      | _ => simp only [fromASTStep]; exact iht _ h
  | list t iht =>
    intro l h
    cases l with
    | none => rfl
    | some l =>
      cases l with
      | var x loc => simp [optHasVars, hasVars] at h
      | list ls loc =>
        simp only [optHasVars, hasVars] at h
        simp only [fromASTStep]
        rw [map_congr' _ _ ls (fun x hx => iht (some x) (hasVars_mem_list h hx))]
      | _ => simp only [fromASTStep]; rw [iht _ h]
  | named n =>
    intro l h
    cases l with
    | none => rfl
    | some l =>
      cases l with
      | var x loc => simp [optHasVars, hasVars] at h
      | obj fs loc =>
        simp only [optHasVars, hasVars] at h
        simp only [fromASTStep]
        have : ∀ fields : List InputFieldS,
            fields.filterMap (fun fl => fieldEntry fl (f fl.type (litLookup fs fl.name))) =
            fields.filterMap (fun fl => fieldEntry fl (g fl.type (litLookup fs fl.name))) := fun fields =>
          filterMap_congr' _ _ fields (fun fl _ => by rw [ih _ _ (hasVars_litLookup h fl.name)])
        simp only [this]
      | _ => rfl

theorem valueFromASTF_novars (s : Schema) (vars1 vars2 : Vars) :
    ∀ (n : Nat) (t : GType) (l : Option Value), optHasVars l = false →
      valueFromASTF s vars1 n t l = valueFromASTF s vars2 n t l := by
  intro n
  induction n with
  | zero => intro t l _; rfl
  | succ n ih => intro t l h; exact fromASTStep_novars s vars1 vars2 _ _ ih t l h

theorem valueFromAST_novars (s : Schema) (t : GType) (l : Option Value) (vars1 vars2 : Vars)
    (h : optHasVars l = false) : valueFromAST s t l vars1 = valueFromAST s t l vars2 :=
  valueFromASTF_novars s vars1 vars2 _ t l h

theorem argLookup_novars {asts : List Argument} (h : astHasVariables asts = false) (k : String) :
    optHasVars (argLookup asts k) = false := by
  induction asts with
  | nil => rfl
  | cons a as ih =>
    simp only [astHasVariables, List.any_cons, Bool.or_eq_false_iff] at h
    simp only [argLookup]
    cases hl : argLookup as k with
    | some w => have := ih (by simpa [astHasVariables] using h.2); rw [hl] at this; simpa using this
    | none =>
      by_cases hk : (a.name.value == k) = true
      · simp [hk, optHasVars, h.1]
      · simp [hk, optHasVars]

theorem getArgumentValues_static (s : Schema) (defs : List ArgDef) (asts : List Argument) (vars1 vars2 : Vars)
    (h : astHasVariables asts = false) :
    getArgumentValues s defs asts vars1 = getArgumentValues s defs asts vars2 := by
  unfold getArgumentValues
  congr 1
  apply filterMap_congr'
  intro d _
  simp only [argEntry]
  rw [valueFromAST_novars s d.type _ vars1 vars2 (argLookup_novars h d.name)]

theorem mkObj_nil : mkObj [] = [] := rfl

theorem plannedArgs_eq (s : Schema) (defs : List ArgDef) (asts : List Argument) (vars : Vars) :
    plannedArgs s (planArguments s defs asts) vars = getArgumentValues s defs asts vars := by
  unfold planArguments
  by_cases h0 : (defs.isEmpty && asts.isEmpty) = true
  · simp only [h0, if_true, plannedArgs]
    simp only [Bool.and_eq_true, List.isEmpty_iff] at h0
    simp [getArgumentValues, h0.1, mkObj_nil]
  · simp only [h0, Bool.false_eq_true, if_false]
    by_cases hv : astHasVariables asts = true
    · simp [hv, plannedArgs]
    · have hv' : astHasVariables asts = false := by simpa using hv
      simp only [hv', Bool.false_eq_true, if_false]
      have hst := getArgumentValues_static s defs asts [] vars hv'
      by_cases he : (getArgumentValues s defs asts []).isEmpty = true
      · simp only [he, if_true, plannedArgs]
        rw [← hst]
        exact (List.isEmpty_iff.mp he).symm
      · simp only [he, Bool.false_eq_true, if_false, plannedArgs]
        exact hst

/-! ## getArgumentValues = the specification's argument coercion -/

theorem lit_agree (s : Schema) (t : GType) (l : Option Value) (vars : Vars) (hp : varsProvided s t l vars = true) :
    Agree (isValidLiteralValue s t l) (coerceLiteral s t l vars) (valueFromAST s t l vars) :=
  lit_agreeF s vars _ t l hp

theorem var_agree (s : Schema) (t : GType) (v : JVal) (hs : strictlyTyped s v t = true) :
    Agree (isValidInputValue s t v) (coerceVariable s t (some v)) (coerceValue s t v) :=
  var_agreeF s _ t v hs

theorem spec_entry_eq (d : ArgDef) (r : JVal) :
    Spec.fieldEntry ⟨d.name, d.type, d.default, ""⟩ r = entryOf d.name d.default r := by
  rw [spec_fieldEntry_eq]; rfl

theorem getArgumentValues_eq_spec' (s : Schema) (defs : List ArgDef) (asts : List Argument) (vars : Vars)
    (hvalid : ∀ d ∈ defs, isValidLiteralValue s d.type (argLookup asts d.name) = true)
    (hprov : ∀ d ∈ defs, varsProvided s d.type (argLookup asts d.name) vars = true) :
    Spec.argumentValues s defs asts vars = .ok (getArgumentValues s defs asts vars) := by
  unfold Spec.argumentValues getArgumentValues
  have := mapE_agree (fun _ => true)
    (fun d => fieldResult ⟨d.name, d.type, d.default, ""⟩ (coerceLiteral s d.type (argLookup asts d.name) vars))
    (fun d => argEntry s asts vars d) defs
    (fun d hd => by
      left
      refine ⟨rfl, ?_⟩
      have h := (lit_agree s d.type (argLookup asts d.name) vars (hprov d hd)).eq_ok (hvalid d hd)
      simp only [h, fieldResult, argEntry, spec_entry_eq])
  rcases this with ⟨_, h2⟩ | ⟨h1, _⟩
  · simp only [h2, filterMap_id_map]
  · simp at h1

/-! ## getVariableValues fails exactly when some variable is uncoercible -/

theorem getVariableValuesGo_ok_iff (s : Schema) (inputs : Vars) (defs : List VarDef) (acc : Vars) :
    (∃ m, getVariableValuesGo s inputs defs acc = .ok m) ↔
      ∀ d ∈ defs, ∃ v, getVariableValue s d (lookupD inputs d.var.value) = .ok v := by
  induction defs generalizing acc with
  | nil => simp [getVariableValuesGo]
  | cons d ds ih =>
    simp only [getVariableValuesGo]
    cases h : getVariableValue s d (lookupD inputs d.var.value) with
    | error e =>
      simp only [List.mem_cons, forall_eq_or_imp, h]
      simp
    | ok v =>
      simp only [List.mem_cons, forall_eq_or_imp, h]
      rw [ih]
      simp

theorem getVariableValue_ok_iff (s : Schema) (d : VarDef) (input : JVal) :
    (∃ v, getVariableValue s d input = .ok v) ↔
      ∃ tr, d.type = some tr ∧ isInputType s (typeOfRef tr) = true ∧ isValidInputValue s (typeOfRef tr) input = true := by
  unfold getVariableValue
  cases ht : d.type with
  | none => simp
  | some tr =>
    simp only [Option.some.injEq, exists_eq_left']
    by_cases hi : isInputType s (typeOfRef tr) = true
    · by_cases hv : isValidInputValue s (typeOfRef tr) input = true
      · simp only [hi, hv, Bool.not_true, Bool.false_eq_true, if_false, if_true, and_self, iff_true]
        cases input.isNull <;> cases d.default <;> simp
      · simp only [hi, hv, Bool.not_true, Bool.false_eq_true, if_false]
        cases input.isNull <;> simp
    · simp [hi]


/-! ## one variable: getVariableValue = the specification's CoerceVariableValues step -/

theorem variableValue_agree (s : Schema) (d : VarDef) (input : JVal)
    (hs : ∀ tr, d.type = some tr → strictlyTyped s input (typeOfRef tr) = true)
    (hd : ∀ tr dv, d.type = some tr → d.default = some dv →
      isValidLiteralValue s (typeOfRef tr) (some dv) = true ∧ varsProvided s (typeOfRef tr) (some dv) [] = true) :
    (∃ v, getVariableValue s d input = .ok v ∧ Spec.variableValue s d (some input) = .ok v) ∨
    ((∃ e, getVariableValue s d input = .error e) ∧ ∃ e, Spec.variableValue s d (some input) = .error e) := by
  unfold getVariableValue Spec.variableValue
  cases ht : d.type with
  | none => right; simp
  | some tr =>
    simp only
    by_cases hi : isInputType s (typeOfRef tr) = true
    · simp only [hi, Bool.not_true, Bool.false_eq_true, if_false, Option.getD_some]
      rcases var_agree s (typeOfRef tr) input (hs tr ht) with ⟨h1, h2⟩ | ⟨h1, e, h2⟩
      · left
        simp only [h1, if_true, h2]
        cases hn : input.isNull with
        | false => simp
        | true =>
          cases hdv : d.default with
          | none => simp
          | some dv =>
            obtain ⟨hv, hp⟩ := hd tr dv ht hdv
            have := (lit_agree s (typeOfRef tr) (some dv) [] hp).eq_ok hv
            simp [this]
      · right
        simp only [h1, Bool.false_eq_true, if_false, h2]
        constructor
        · cases input.isNull <;> simp
        · exact ⟨e, rfl⟩
    · right
      simp [hi]

/-! ## Int range at the scalar level -/

theorem intOfDec_range (m : Int) (e : Nat) (i : Int) (h : intOfDec m e = .int i) : inInt32 i = true := by
  unfold intOfDec at h
  simp only at h
  split at h
  · cases h
  · rename_i hc
    simp only [Bool.or_eq_true, decide_eq_true_eq, not_or, Int.not_lt] at hc
    simp only [JVal.int.injEq] at h
    subst h
    have hp : (0 : Int) < 10 ^ e := Int.pow_pos (by decide)
    simp only [inInt32, Bool.and_eq_true, decide_eq_true_eq]
    constructor
    · -- minInt32 * p ≤ m → minInt32 ≤ m.tdiv p
      have : (minInt32 * 10 ^ e).tdiv (10 ^ e) ≤ m.tdiv (10 ^ e) := Int.tdiv_le_tdiv hp hc.1
      rwa [Int.mul_tdiv_cancel _ (Int.ne_of_gt hp)] at this
    · have : m.tdiv (10 ^ e) ≤ (maxInt32 * 10 ^ e).tdiv (10 ^ e) := Int.tdiv_le_tdiv hp hc.2
      rwa [Int.mul_tdiv_cancel _ (Int.ne_of_gt hp)] at this

theorem coerceInt_range (v : JVal) (i : Int) (h : coerceInt v = .int i) : inInt32 i = true := by
  cases v with
  | bool b => cases b <;> simp [coerceInt] at h <;> subst h <;> decide
  | int j =>
    simp only [coerceInt] at h
    split at h
    · rename_i hj; simp only [JVal.int.injEq] at h; subst h; exact hj
    · cases h
  | dec m e => exact intOfDec_range m e i h
  | str x =>
    simp only [coerceInt] at h
    split at h
    · cases h
    · split at h
      · exact intOfDec_range _ _ i h
      · cases h
  | _ => simp [coerceInt] at h

theorem parseLiteral_int_range (l : Value) (i : Int) (h : parseLiteral .int l = .int i) : inInt32 i = true := by
  cases l <;> simp only [parseLiteral] at h <;> try (cases h)
  split at h
  · split at h
    · rename_i hj; simp only [JVal.int.injEq] at h; subst h; exact hj
    · cases h
  · cases h

/-! ## `hasVars` is the full scan: it finds a variable at any depth, list index and field position -/

/-- a variable occurs somewhere inside the literal (any depth, any list index, any field position) -/
inductive VarIn : Value → Prop
  | var (x : String) (loc : Loc) : VarIn (.var x loc)
  | list (vs : List Value) (loc : Loc) (v : Value) : v ∈ vs → VarIn v → VarIn (.list vs loc)
  | obj (fs : List ObjField) (loc : Loc) (f : ObjField) : f ∈ fs → VarIn f.value → VarIn (.obj fs loc)

mutual
theorem hasVars_sound : ∀ (l : Value), hasVars l = true → VarIn l
  | .var x loc, _ => .var x loc
  | .list vs loc, h => by
    obtain ⟨v, hm, hv⟩ := hasVarsList_sound vs (by simpa [hasVars] using h)
    exact .list vs loc v hm hv
  | .obj fs loc, h => by
    obtain ⟨f, hm, hv⟩ := hasVarsFields_sound fs (by simpa [hasVars] using h)
    exact .obj fs loc f hm hv
  | .int _ _, h => by simp [hasVars] at h
  | .float _ _, h => by simp [hasVars] at h
  | .str _ _, h => by simp [hasVars] at h
  | .bool _ _, h => by simp [hasVars] at h
  | .enum _ _, h => by simp [hasVars] at h
theorem hasVarsList_sound : ∀ (vs : List Value), hasVarsList vs = true → ∃ v ∈ vs, VarIn v
  | [], h => by simp [hasVarsList] at h
  | v :: vs, h => by
    simp only [hasVarsList, Bool.or_eq_true] at h
    rcases h with h | h
    · exact ⟨v, by simp, hasVars_sound v h⟩
    · obtain ⟨w, hm, hw⟩ := hasVarsList_sound vs h
      exact ⟨w, by simp [hm], hw⟩
theorem hasVarsFields_sound : ∀ (fs : List ObjField), hasVarsFields fs = true → ∃ f ∈ fs, VarIn f.value
  | [], h => by simp [hasVarsFields] at h
  | (.mk n v l) :: fs, h => by
    simp only [hasVarsFields, Bool.or_eq_true] at h
    rcases h with h | h
    · exact ⟨.mk n v l, by simp, hasVars_sound v h⟩
    · obtain ⟨w, hm, hw⟩ := hasVarsFields_sound fs h
      exact ⟨w, by simp [hm], hw⟩
end

theorem hasVarsList_of_mem {vs : List Value} {v : Value} (hm : v ∈ vs) (hv : hasVars v = true) :
    hasVarsList vs = true := by
  induction vs with
  | nil => cases hm
  | cons w ws ih =>
    simp only [hasVarsList, Bool.or_eq_true]
    rcases List.mem_cons.mp hm with rfl | hm'
    · exact Or.inl hv
    · exact Or.inr (ih hm')

theorem hasVarsFields_of_mem {fs : List ObjField} {f : ObjField} (hm : f ∈ fs) (hv : hasVars f.value = true) :
    hasVarsFields fs = true := by
  induction fs with
  | nil => cases hm
  | cons g gs ih =>
    obtain ⟨n, v, l⟩ := g
    simp only [hasVarsFields, Bool.or_eq_true]
    rcases List.mem_cons.mp hm with rfl | hm'
    · exact Or.inl hv
    · exact Or.inr (ih hm')

theorem hasVars_complete {l : Value} (h : VarIn l) : hasVars l = true := by
  induction h with
  | var x loc => rfl
  | list vs loc v hm _ ih => simp only [hasVars]; exact hasVarsList_of_mem hm ih
  | obj fs loc f hm _ ih => simp only [hasVars]; exact hasVarsFields_of_mem hm ih

theorem hasVars_iff_varIn (l : Value) : hasVars l = true ↔ VarIn l := ⟨hasVars_sound l, hasVars_complete⟩

theorem astHasVariables_iff' (asts : List Argument) :
    astHasVariables asts = true ↔ ∃ a ∈ asts, VarIn a.value := by
  simp only [astHasVariables, List.any_eq_true, hasVars_iff_varIn]

end GqlModel.Coerce
