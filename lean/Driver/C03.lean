import Driver.Common
import Driver.AstJson
import GqlModel.Parser
import GqlModel.Grammar
import GqlModel.DescLoc
/-! Driver for C03 (parser half).
`{"tokens":[[kind,start,stop,value],…], "goAst": <astjson>|null}` →
`{"M":{"ok":bool,"errPos":n|null,"fuel":bool,"astEq":bool|null,"mAst":str?,"gAst":str?},"S":{"accept":bool|null},"kf":[…]}`
`astEq` compares the decoded Go AST with the model's AST structurally, locations included, through a canonical
rendering (`render`, injective: every string is quoted, every list bracketed).  The shared AST keeps descriptions as
values only, so the `Description.Loc`s travel beside it: `"descLocs":[[start,end],…]` are those of the real AST in
document order (harness walk), the model's are `Definition.descLocs` (GqlModel/DescLoc.lean: the extent of the token
the described node starts with); both lists are appended to the renderings that `astEq` compares. -/
open Lean GqlModel

namespace Driver.C03

def decToken (j : Json) : Except String Token := do
  match j with
  | .arr #[k, s, e, v] =>
    let kn ← k.getNat?
    match TokenKind.ofNat? kn with
    | some kind => return ⟨kind, ← s.getNat?, ← e.getNat?, ← v.getStr?⟩
    | none => throw s!"bad token kind {kn}"
  | _ => throw s!"bad token {j.compress}"

/-! canonical rendering -/
def rLoc (l : Loc) : String := s!"@{l.start}-{l.stop}"
def rName (n : GqlModel.Name) : String := s!"{n.value.quote}{rLoc n.loc}"
def rOpt {α} (f : α → String) : Option α → String
  | none => "~"
  | some a => s!"?{f a}"
def rList {α} (f : α → String) (xs : List α) : String := "[" ++ ",".intercalate (xs.map f) ++ "]"

def rType : TypeRef → String
  | .named n l => s!"N({n.quote}{rLoc l})"
  | .list t l => s!"L({rType t}{rLoc l})"
  | .nonNull t l => s!"NN({rType t}{rLoc l})"

partial def rValue : Value → String
  | .var n l => s!"var({n.quote}{rLoc l})"
  | .int r l => s!"int({r.quote}{rLoc l})"
  | .float r l => s!"float({r.quote}{rLoc l})"
  | .str v l => s!"str({v.quote}{rLoc l})"
  | .bool b l => s!"bool({b}{rLoc l})"
  | .enum v l => s!"enum({v.quote}{rLoc l})"
  | .list vs l => s!"list({rList rValue vs}{rLoc l})"
  | .obj fs l => s!"obj({rList (fun f => s!"({rName f.name}:{rValue f.value}{rLoc f.loc})") fs}{rLoc l})"

def rArg (a : Argument) : String := s!"({rName a.name}:{rValue a.value}{rLoc a.loc})"
def rDir (d : Directive) : String := s!"dir({rName d.name}{rList rArg d.args}{rLoc d.loc})"
def rDirs := rList rDir

mutual
partial def rSel : Selection → String
  | .field a n args dirs sel l => s!"field({rOpt rName a},{rName n},{rList rArg args},{rDirs dirs},{rOpt rSelSet sel}{rLoc l})"
  | .spread n dirs l => s!"spread({rName n},{rDirs dirs}{rLoc l})"
  | .inline tc dirs sel l => s!"inline({rOpt rType tc},{rDirs dirs},{rSelSet sel}{rLoc l})"
partial def rSelSet : SelectionSet → String
  | .mk sels l => s!"sels({rList rSel sels}{rLoc l})"
end

def rStr (s : String) : String := s.quote
def rVarDef (v : VarDef) : String :=
  s!"vardef({rName v.var}{rLoc v.varLoc},{rOpt rType v.type},{rOpt rValue v.default}{rLoc v.loc})"
def rIVD (d : InputValueDef) : String :=
  s!"ivd({rOpt rStr d.description},{rName d.name},{rType d.type},{rOpt rValue d.default},{rDirs d.dirs}{rLoc d.loc})"
def rFD (d : FieldDef) : String :=
  s!"fd({rOpt rStr d.description},{rName d.name},{rList rIVD d.args},{rType d.type},{rDirs d.dirs}{rLoc d.loc})"
def rEVD (d : EnumValueDef) : String := s!"evd({rOpt rStr d.description},{rName d.name},{rDirs d.dirs}{rLoc d.loc})"
def rOTD (d : OpTypeDef) : String := s!"otd({d.operation.toString},{rType d.type}{rLoc d.loc})"
def rObj (d : ObjectDef) : String :=
  s!"object({rOpt rStr d.description},{rName d.name},{rList rType d.interfaces},{rDirs d.dirs},{rList rFD d.fields}{rLoc d.loc})"

def rDef : Definition → String
  | .operation op n vs dirs sel l =>
    s!"op({op.toString},{rOpt rName n},{rList rVarDef vs},{rDirs dirs},{rSelSet sel}{rLoc l})"
  | .fragment n tc dirs sel l => s!"fragment({rName n},{rType tc},{rDirs dirs},{rSelSet sel}{rLoc l})"
  | .schema dirs ops l => s!"schema({rDirs dirs},{rList rOTD ops}{rLoc l})"
  | .scalar d n dirs l => s!"scalar({rOpt rStr d},{rName n},{rDirs dirs}{rLoc l})"
  | .object d => rObj d
  | .interface d n dirs fs l => s!"interface({rOpt rStr d},{rName n},{rDirs dirs},{rList rFD fs}{rLoc l})"
  | .union d n dirs ts l => s!"union({rOpt rStr d},{rName n},{rDirs dirs},{rList rType ts}{rLoc l})"
  | .enum d n dirs vs l => s!"enum({rOpt rStr d},{rName n},{rDirs dirs},{rList rEVD vs}{rLoc l})"
  | .inputObject d n dirs fs l => s!"input({rOpt rStr d},{rName n},{rDirs dirs},{rList rIVD fs}{rLoc l})"
  | .extend d l => s!"extend({rObj d}{rLoc l})"
  | .directive d n args locs l => s!"directive({rOpt rStr d},{rName n},{rList rIVD args},{rList rName locs}{rLoc l})"

def rDoc (d : Document) : String := s!"doc({rList rDef d.defs}{rLoc d.loc})"

/-- the `Description.Loc`s, in document order -/
def rDescLocs (ls : List (Option Loc)) : String := " descLocs" ++ rList (rOpt rLoc) ls

def decDescLocs (j : Json) : Except String (List (Option Loc)) := do
  match Driver.getOpt j "descLocs" with
  | none => pure []
  | some a =>
    match a with
    | .arr xs => xs.toList.mapM (fun x => do
        match x with
        | .arr #[s, e] =>
          match s.getNat?, e.getNat? with
          | .ok a, .ok b => pure (some (⟨a, b⟩ : Loc))
          | _, _ => pure none
        | _ => pure none)  -- a negative or missing offset in the real AST: never equal to a model location
    | _ => throw "bad descLocs"

/-- `{"tokens":[…tokens that lexed…], "lazy":true}`: the text has a malformed lexeme after these tokens -/
def complJson (pre : List Token) : Json :=
  match Grammar.certifiedCompletion pre with
  | some ts => Json.arr (ts.map (fun t => Json.arr #[Json.num t.kind.toNat, Json.str t.value])).toArray
  | none => Json.str "none"

def handleLazy (toks : List Token) : Json :=
  -- index of the first token that is not part of a viable prefix (|toks| when the lexical error wins), the D-03b flag
  let (k, bad) : Nat × Bool := match Parser.parseDocument (Parser.initState toks (Parser.freshEOF toks)) with
    | .ok (_, σ) => (toks.length, σ.bad)
    | .error (.syntax _ b left) => (toks.length - left, b)
    | .error _ => (toks.length, true)
  let extra := [("blame", Json.num k), ("completion", if bad then Json.null else complJson (toks.take k)),
    ("certified", Json.bool (Grammar.certifiedCompletion (toks.take k)).isSome)]
  match Parser.parseLazy toks with
  | .lexError => Json.mkObj ([("lazy", Json.mkObj [("kind", Json.str "lex"), ("pos", Json.null)])] ++ extra)
  | .syntax p => Json.mkObj ([("lazy", Json.mkObj [("kind", Json.str "syntax"), ("pos", Json.num p)])] ++ extra)
  | .fuel => Json.mkObj [("lazy", Json.mkObj [("kind", Json.str "fuel"), ("pos", Json.null)])]

def handle (j : Json) : Except String Json := do
  let toks ← (← Driver.getArr j "tokens").toList.mapM decToken
  if (Driver.getOpt j "lazy").isSome then return handleLazy toks
  let goAst : Option Document ← match Driver.getOpt j "goAst" with
    | none => pure none
    | some a => do pure (some (← Driver.AstJson.decDocument a))
  let s : Json := match Grammar.recognise toks with
    | some b => Json.mkObj [("accept", Json.bool b)]
    | none => Json.mkObj [("accept", Json.null), ("fuel", Json.bool true)]
  match Parser.parseTokens toks with
  | .ok p =>
    let m := rDoc p.doc ++ rDescLocs (p.doc.defs.flatMap (·.descLocs toks))
    let gDescLocs ← decDescLocs j
    let (eq, extra) := match goAst with
      | none => (Json.null, [])
      | some g =>
        let gs := rDoc g ++ rDescLocs gDescLocs
        if gs == m then (Json.bool true, []) else (Json.bool false, [("mAst", Json.str m), ("gAst", Json.str gs)])
    let kf : List Json := if p.typeRefMalformed then [Json.str "typeRefMalformed"] else []
    return Json.mkObj [("M", Json.mkObj ([("ok", Json.bool true), ("errPos", Json.null), ("fuel", Json.bool false), ("astEq", eq)] ++ extra)),
      ("S", s), ("kf", Json.arr kf.toArray)]
  | .error e =>
    let (pos, fuel) : Json × Bool := match e with
      | .syntax p _ _ => (Json.num p, false)
      | .fuel => (Json.null, true)
    let kf : List Json := match e with
      | .syntax _ true _ => [Json.str "typeRefMalformed"]
      | _ => []
    -- the blamed token's index and, when the flag is down, tokens that complete the text before it to a document
    let bef := toks.takeWhile (fun t => t.kind ≠ .eof)
    let (blame, compl, cert) : Json × Json × Json := match e with
      | .syntax _ bad left =>
        let k := bef.length - left
        let c : Json := if bad then Json.null else complJson (bef.take k)
        (Json.num k, c, Json.bool (Grammar.certifiedCompletion (bef.take k)).isSome)
      | _ => (Json.null, Json.null, Json.null)
    return Json.mkObj [("M", Json.mkObj [("ok", Json.bool false), ("errPos", pos), ("fuel", Json.bool fuel), ("astEq", Json.null),
        ("noEOF", Json.bool false)]),
      ("S", s), ("kf", Json.arr kf.toArray), ("blame", blame), ("completion", compl), ("certified", cert)]

end Driver.C03

def main : IO Unit := Driver.run (Driver.wrap Driver.C03.handle)
