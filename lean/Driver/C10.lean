import Driver.Common
import Driver.SchemaJson
import GqlModel.Introspection
/-! Driver for C10.

request  `{"schema": <gq.SchemaDesc>, "supplied": [names]?, "depth": n?}`
  * `supplied` = names of `SchemaConfig.Types` followed by the types appended later (default: every type of the description);
  * `depth`    = number of nested `ofType` selections of the query's `TypeRef` fragment (default 7, the standard query).
response `{"tree": {"__schema": …}, "closure": […], "defaults": […]}`
  * `tree` has the shape of the `data` of the standard full introspection query, in the model's order: `types`,
    `fields`, `args`, `inputFields`, `enumValues` and the `possibleTypes` of an interface sorted by name, `interfaces`,
    union members, `directives` and `locations` as configured (the harness sorts both sides before the content
    comparison and compares the order separately);
  * `defaults`: one entry per configured default (field arguments, input fields, directive arguments of the described
    types) with the model's text, the literal the model's reader sees in it, the value it coerces to, the class
    predicates, and the text the pinned tree printed (`pinnedText`, D-10a, for the record).

What `gq.Build` configures and the description leaves implicit is supplied here: built-in scalars carry the library's
descriptions; an empty directive list means `SpecifiedDirectives`, a non-empty one is skip, include, deprecated followed
by the custom directives. -/
open Lean GqlModel GqlModel.Introspection Driver.SchemaJson

namespace Driver.C10

def builtinKindName : ScalarKind → Option String
  | .int => some "Int" | .float => some "Float" | .string => some "String" | .boolean => some "Boolean" | .id => some "ID"
  | .custom .. => none

def adapt (s : Schema) : Schema :=
  let types := s.types.map (fun
    | .scalar n k d => match builtinKindName k with
      | some b => .scalar n k (builtinScalarDescription b)
      | none => .scalar n k d
    | t => t)
  let spec (n : String) : List DirectiveDefS := specifiedDirectives.filter (·.name == n)
  let dirs := if s.directives.isEmpty then specifiedDirectives
    else spec "skip" ++ spec "include" ++ spec "deprecated" ++
      s.directives.filter (fun d => d.name != "skip" && d.name != "include" && d.name != "deprecated")
  { s with types := types, directives := dirs }

def jstr (s : String) : Json := Json.str s
def jopt (o : Option String) : Json := match o with | some s => Json.str s | none => Json.null

/-- `{kind,name,ofType}` with `depth` further `ofType` levels available; below that the key is absent -/
def encRef : Nat → TRef → Json
  | 0, .named k n => Json.mkObj [("kind", jstr k), ("name", jstr n)]
  | 0, .list _ => Json.mkObj [("kind", jstr "LIST"), ("name", Json.null)]
  | 0, .nonNull _ => Json.mkObj [("kind", jstr "NON_NULL"), ("name", Json.null)]
  | _ + 1, .named k n => Json.mkObj [("kind", jstr k), ("name", jstr n), ("ofType", Json.null)]
  | d + 1, .list t => Json.mkObj [("kind", jstr "LIST"), ("name", Json.null), ("ofType", encRef d t)]
  | d + 1, .nonNull t => Json.mkObj [("kind", jstr "NON_NULL"), ("name", Json.null), ("ofType", encRef d t)]

def encInput (depth : Nat) (i : InputValueI) : Json :=
  Json.mkObj [("name", jstr i.name), ("description", jstr i.description), ("type", encRef depth i.type),
    ("defaultValue", jopt i.defaultValue)]

def encField (depth : Nat) (f : FieldI) : Json :=
  Json.mkObj [("name", jstr f.name), ("description", jstr f.description),
    ("args", Json.arr (f.args.map (encInput depth)).toArray), ("type", encRef depth f.type),
    ("isDeprecated", Json.bool f.isDeprecated), ("deprecationReason", jopt f.deprecationReason)]

def encEnumValue (e : EnumValueI) : Json :=
  Json.mkObj [("name", jstr e.name), ("description", jstr e.description), ("isDeprecated", Json.bool e.isDeprecated),
    ("deprecationReason", jopt e.deprecationReason)]

def optArr {α : Type} (o : Option (List α)) (f : α → Json) : Json :=
  match o with | none => Json.null | some l => Json.arr (l.map f).toArray

def encType (depth : Nat) (t : TypeI) : Json :=
  Json.mkObj [("kind", jstr t.kind), ("name", jstr t.name), ("description", jstr t.description),
    ("fields", optArr t.fields (encField depth)),
    ("inputFields", optArr t.inputFields (encInput depth)),
    ("interfaces", optArr t.interfaces (encRef depth)),
    ("enumValues", optArr t.enumValues encEnumValue),
    ("possibleTypes", optArr t.possibleTypes (encRef depth))]

def encDirective (depth : Nat) (d : DirectiveI) : Json :=
  Json.mkObj [("name", jstr d.name), ("description", jstr d.description),
    ("locations", Json.arr (d.locations.map jstr).toArray), ("args", Json.arr (d.args.map (encInput depth)).toArray),
    ("onOperation", Json.bool d.onOperation), ("onFragment", Json.bool d.onFragment), ("onField", Json.bool d.onField)]

def encResult (depth : Nat) (r : IntrospectionResult) : Json :=
  let nameObj (o : Option String) : Json := match o with | some n => Json.mkObj [("name", jstr n)] | none => Json.null
  Json.mkObj [("__schema", Json.mkObj [
    ("queryType", nameObj (some r.queryType)), ("mutationType", nameObj r.mutationType),
    ("subscriptionType", nameObj r.subscriptionType),
    ("types", Json.arr (r.types.map (encType depth)).toArray),
    ("directives", Json.arr (r.directives.map (encDirective depth)).toArray)])]

partial def encLit : Lit → Json
  | .num t => Json.mkObj [("num", jstr t)]
  | .str s => Json.mkObj [("str", jstr s)]
  | .bool b => Json.mkObj [("bool", Json.bool b)]
  | .enum n => Json.mkObj [("enum", jstr n)]
  | .list xs => Json.mkObj [("list", Json.arr (xs.map encLit).toArray)]
  | .obj fs => Json.mkObj [("obj", Json.arr (fs.map (fun p => Json.arr #[jstr p.1, encLit p.2])).toArray)]

/-- configured defaults of a type definition: (owner, type, value) -/
def defaultsOf : TypeDef → List (String × GType × JVal)
  | .object n _ fs _ _ | .interface n fs _ _ =>
    fs.flatMap (fun f => f.args.filterMap (fun a => a.default.map (fun v => (s!"{n}.{f.name}({a.name})", a.type, v))))
  | .inputObject n fs _ => fs.filterMap (fun f => f.default.map (fun v => (s!"{n}.{f.name}", f.type, v)))
  | _ => []

def encDefault (s : Schema) (all : List TypeDef) (d : String × GType × JVal) : Json :=
  let (owner, t, v) := d
  let text := printDefaultIn all t v
  let lit := text.bind (fun tx => readLit tx.toList)
  let re : Json := match lit with
    | some l => Json.mkObj [("ok", Json.bool true), ("v", encJVal (coerceLit all t l))]
    | none => Json.mkObj [("ok", Json.bool false)]
  Json.mkObj [("owner", jstr owner), ("type", jstr t.render), ("value", encJVal v), ("text", jopt text),
    ("lit", match lit with | some l => encLit l | none => Json.null), ("reread", re),
    ("conformant", Json.bool (conformant all t v)), ("scalarLike", Json.bool (scalarLike all t v)),
    ("pinnedText", jstr (printDefaultPinned s t v))]

def handle (j : Json) : Except String Json := do
  let s0 ← decSchema (← j.getObjVal? "schema")
  let s := adapt s0
  let wireNames ← (← Driver.getArr (← j.getObjVal? "schema") "types").toList.mapM (fun t => Driver.getStr t "name")
  let supplied ← match j.getObjVal? "supplied" with
    | .ok (.arr xs) => xs.toList.mapM (·.getStr?)
    | _ => pure wireNames
  let depth := match j.getObjVal? "depth" with
    | .ok v => (v.getNat?.toOption).getD 7
    | _ => 7
  let all := allTypes s
  let r := introspect s supplied
  let defs := closureDefs s supplied
  let dflts := defs.flatMap defaultsOf ++
    s.directives.flatMap (fun d => d.args.filterMap (fun a => a.default.map (fun v => (s!"@{d.name}({a.name})", a.type, v))))
  let dflts := dflts.filter (fun d => !d.2.2.isNull)
  let wf := wfInputTypes s.types && s.types.all membersOnce
  return Json.mkObj [("tree", encResult depth r), ("wf", Json.bool wf),
    ("closure", Json.arr ((typesClosure s supplied).map jstr).toArray),
    ("defaults", Json.arr (dflts.map (encDefault s all)).toArray)]

end Driver.C10

def main : IO Unit := Driver.run (Driver.wrap Driver.C10.handle)
