import Driver.Common
import GqlModel.DefaultResolve
/-! Driver for the unit `c01dr` (default resolver).
in : {"source": SRC, "names": [string…], "keys": [string…] | null}
     SRC  = {"k":"nil"} | {"k":"resolver","out":n} | {"k":"struct","ptr":bool,"fields":[{"name","exported","json","graphql","val":PV}…]}
          | {"k":"nilPtr"} | {"k":"ptrOther"} | {"k":"mapIface","entries":[[key,PV]…]}
          | {"k":"mapRefl","keyExact":bool,"elem":"iface"|"func0"|"other","entries":[[key,PV]…]} | {"k":"other"}
     PV   = {"t":"nil"} | {"t":"plain","id":n} | {"t":"func0","id":n} | {"t":"funcOther","id":n}
out: {"results":[RES…] (one per name), "wellFormed":bool, "unambiguous": bool | null (struct sources with "keys")}
     RES  = "panic" | "resolved:n" | "called:n" | "value:nil" | "value:plain:n" | "value:func0:n" | "value:funcOther:n" -/
open Lean GqlModel.DefaultResolve

namespace Driver.C01Default

def decPV (j : Json) : Except String PVal := do
  match ← Driver.getStr j "t" with
  | "nil" => pure .nil
  | "plain" => pure (.plain (← Driver.getNat j "id"))
  | "func0" => pure (.func0 (← Driver.getNat j "id"))
  | "funcOther" => pure (.funcOther (← Driver.getNat j "id"))
  | s => throw s!"unknown property kind {s}"

def decEntries (j : Json) : Except String (List (String × PVal)) := do
  (← Driver.getArr j "entries").toList.mapM fun e => do
    match (← e.getArr?).toList with
    | [k, v] => pure (← k.getStr?, ← decPV v)
    | _ => throw "bad entry"

def decSource (j : Json) : Except String Source := do
  match ← Driver.getStr j "k" with
  | "nil" => pure .untypedNil
  | "resolver" => pure (.resolver (← Driver.getNat j "out"))
  | "struct" =>
    let fs ← (← Driver.getArr j "fields").toList.mapM fun f => do
      pure ({ name := ← Driver.getStr f "name", exported := ← Driver.getBool f "exported",
              json := ← Driver.getStr f "json", graphql := ← Driver.getStr f "graphql",
              val := ← decPV (← f.getObjVal? "val") } : SField)
    pure (.struct (← Driver.getBool j "ptr") fs)
  | "nilPtr" => pure .nilPtr
  | "ptrOther" => pure .ptrOther
  | "mapIface" => pure (.mapIface (← decEntries j))
  | "mapRefl" =>
    let el ← match ← Driver.getStr j "elem" with
      | "iface" => pure ElemKind.iface
      | "func0" => pure ElemKind.func0
      | "other" => pure ElemKind.other
      | s => throw s!"unknown element kind {s}"
    pure (.mapRefl (← Driver.getBool j "keyExact") el (← decEntries j))
  | "other" => pure .other
  | s => throw s!"unknown source kind {s}"

def encPV : PVal → String
  | .nil => "nil"
  | .plain n => s!"plain:{n}"
  | .func0 n => s!"func0:{n}"
  | .funcOther n => s!"funcOther:{n}"

def encRes : Res → String
  | .panic => "panic"
  | .resolved n => s!"resolved:{n}"
  | .called n => s!"called:{n}"
  | .value v => "value:" ++ encPV v

def handle (j : Json) : Except String Json := do
  let src ← decSource (← j.getObjVal? "source")
  let names ← (← Driver.getArr j "names").toList.mapM (·.getStr?)
  let unamb ← match Driver.getOpt j "keys", src with
    | some ks, .struct _ fs => do
      let ks ← (← ks.getArr?).toList.mapM (·.getStr?)
      pure (Json.bool (unambiguousB fs ks))
    | _, _ => pure Json.null
  return Json.mkObj [
    ("results", Json.arr (names.map (fun n => Json.str (encRes (defaultResolve src n)))).toArray),
    ("wellFormed", Json.bool (wellFormed src)),
    ("unambiguous", unamb)]

end Driver.C01Default

def main : IO Unit := Driver.run (Driver.wrap Driver.C01Default.handle)
