import Driver.Common
import GqlModel.Cancel
/-! Driver for C16.
in : {"prefix":"f"|"m" (field name prefix: query fields f_i, mutation fields m_i; the machine is the same), "rs":[{"fails":bool,"observes":bool},…], "skipFirst":bool, "cap":n|null,
      "acts":[["step",k,saw]|["finish"]|["ctxDone","canceled"|"deadline"]|["selectCtx"]|["selectResult"], …]}
     `skipFirst`: step 0 is the variable-coercion gate and contributes no field; `cap` null = the code's capacity.
out: {"valid":bool,"failedAt":i|null,"failedAct":…, "returned":bool, "class":"normal"|"ctx"|null,
      "expected": canonical result of the outcome | null, "executor":"running"|"sent", "stepsDone":n, "cap":n,
      "chan":n, "ctx":null|"canceled"|"deadline"}
Canonical result = {"data": {f_i: 100+i | null} | null, "errs":[{"path":[…],"ctx":""|"canceled"|"deadline"}…]}:
step i ↦ field f_i (f_{i-1} with skipFirst); `value` ↦ 100+index, `failed`/`ctxSeen` ↦ null plus one error. -/
open Lean GqlModel.Cancel

namespace Driver.C16

def ctxName : CtxErr → String
  | .canceled => "canceled"
  | .deadlineExceeded => "deadline"

def decCtx : String → Except String CtxErr
  | "canceled" => pure .canceled
  | "deadline" => pure .deadlineExceeded
  | s => throw s!"unknown context error {s}"

def decAct (j : Json) : Except String Act := do
  let a ← j.getArr?
  match a.toList with
  | [t, k, saw] =>
    if (← t.getStr?) == "step" then return .resolverStep (← k.getNat?) (← saw.getBool?) else throw "bad action"
  | [t, e] =>
    if (← t.getStr?) == "ctxDone" then return .ctxDone (← decCtx (← e.getStr?)) else throw "bad action"
  | [t] =>
    match ← t.getStr? with
    | "finish" => return .finish
    | "selectCtx" => return .selectCtx
    | "selectResult" => return .selectResult
    | s => throw s!"unknown action {s}"
  | _ => throw "bad action"

def errEntry (path : List String) (c : String) : Json :=
  Json.mkObj [("path", Json.arr (path.map Json.str).toArray), ("ctx", Json.str c)]

def fieldsOf (skipFirst : Bool) (vals : List Val) : List (Nat × Val) :=
  let vs := if skipFirst then vals.drop 1 else vals
  (List.range vs.length).zip vs

def expected (pre : String) (skipFirst : Bool) : Outcome → Json
  | .ctxError e => Json.mkObj [("data", Json.null), ("errs", Json.arr #[errEntry [] (ctxName e)])]
  | .normal vals =>
    let fs := fieldsOf skipFirst vals
    let data := fs.map (fun (i, v) => (s!"{pre}{i}", match v with | .value => Json.num ((100 + i : Nat) : JsonNumber) | _ => Json.null))
    let errs := fs.filterMap (fun (i, v) => match v with
      | .value => none
      | .failed => some (errEntry [s!"{pre}{i}"] "")
      | .ctxSeen e => some (errEntry [s!"{pre}{i}"] (ctxName e)))
    Json.mkObj [("data", Json.mkObj data), ("errs", Json.arr errs.toArray)]

def runPrefix (rs : List Resolver) (cap : Nat) (s : St) (i : Nat) : List Act → St × Option Nat
  | [] => (s, none)
  | a :: as =>
    match step rs cap s a with
    | none => (s, some i)
    | some t => runPrefix rs cap t (i + 1) as

def handle (j : Json) : Except String Json := do
  let rs ← (← Driver.getArr j "rs").toList.mapM (fun r => do
    pure ({ fails := (← Driver.getBool r "fails"), observes := (← Driver.getBool r "observes") } : Resolver))
  let skipFirst ← Driver.getBool j "skipFirst"
  let pre := match Driver.getOpt j "prefix" with
    | some (.str p) => p
    | _ => "f"
  let cap ← match Driver.getOpt j "cap" with
    | some c => c.getNat?
    | none => pure codeCap
  let actsJ ← Driver.getArr j "acts"
  let acts ← actsJ.toList.mapM decAct
  let (s, failed) := runPrefix rs cap init 0 acts
  let (returned, cls, exp) := match s.caller with
    | .waiting => (false, Json.null, Json.null)
    | .returned o => (true, Json.str (match o with | .normal _ => "normal" | .ctxError _ => "ctx"), expected pre skipFirst o)
  let (ex, done) := match s.exec with
    | .running acc => ("running", acc.length)
    | .sent => ("sent", rs.length)
  return Json.mkObj [
    ("valid", Json.bool failed.isNone),
    ("failedAt", match failed with | none => Json.null | some i => Json.num (i : JsonNumber)),
    ("failedAct", match failed with | none => Json.null | some i => (actsJ.toList.getD i Json.null)),
    ("returned", Json.bool returned), ("class", cls), ("expected", exp),
    ("executor", Json.str ex), ("stepsDone", Json.num (done : JsonNumber)), ("cap", Json.num (cap : JsonNumber)),
    ("chan", Json.num (s.chan.length : JsonNumber)),
    ("ctx", match s.ctx with | none => Json.null | some e => Json.str (ctxName e))]

end Driver.C16

def main : IO Unit := Driver.run (Driver.wrap Driver.C16.handle)
