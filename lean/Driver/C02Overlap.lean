import Driver.Common
import Driver.AstJson
import Driver.SchemaJson
import GqlModel.Validate.Overlap
/-! Driver for the fragment-topology unit of C02 (harness/cmd/c02overlap).

`{"schema":<gq.SchemaDesc>, "doc":<astjson Document>}` →
`{"overlap": {"M": [[[start,stop]…]…], "S": […], "SlkM": [… S with M's field-definition lookup …], "Soof": bool, "oof": bool, "nFC": n, "nFF": n, "nBF": n},
  "cycles":  {"M": […], "S": […], "oof": bool},
  "unused":  {"M": […], "S": […]}, "undefVar": {…}, "unusedVar": {…}, "varPos": {…},
  "uniqueFragNames": bool, "locsDistinct": bool, "coherent": bool (hypothesis of overlap_sound),
  "bounds": {"sets": S, "spreadNames": F, "frags": Fd, "fuel": n}}` -/
open Lean GqlModel GqlModel.Validate GqlModel.Validate.Graph GqlModel.Validate.Overlap

namespace Driver.C02Overlap

def encLoc (l : Loc) : Json := Json.arr #[Json.num l.start, Json.num l.stop]
def encErr (e : VErr) : Json := Json.arr (e.locs.map encLoc).toArray
def encErrs (es : List VErr) : Json := Json.arr (es.map encErr).toArray

def handle (j : Json) : Except String Json := do
  let s ← Driver.SchemaJson.decSchema (← j.getObjVal? "schema")
  let d ← Driver.AstJson.decDocument (← j.getObjVal? "doc")
  let m := overlapM s d
  let sp := overlapSF s d
  let spM := overlapSFe (envM s d) d
  let cyc := cycleRun (fragDefs d)
  return Json.mkObj [
    ("overlap", Json.mkObj [
      ("M", encErrs (m.2.map Conflict.toErr)), ("S", encErrs (sp.getD [])), ("Soof", sp.isNone || spM.isNone),
      ("SlkM", encErrs (spM.getD [])),
      ("oof", m.1.oof), ("nFC", m.1.nFC), ("nFF", m.1.cntFF), ("nBF", m.1.cntBF)]),
    ("cycles", Json.mkObj [("M", encErrs cyc.errs), ("S", encErrs (noFragmentCyclesS s d)), ("oof", cyc.oof)]),
    ("unused", Json.mkObj [("M", encErrs (noUnusedFragments s d)), ("S", encErrs (noUnusedFragmentsS s d))]),
    ("undefVar", Json.mkObj [("M", encErrs (noUndefinedVariables s d)), ("S", encErrs (noUndefinedVariablesS s d))]),
    ("unusedVar", Json.mkObj [("M", encErrs (noUnusedVariables s d)), ("S", encErrs (noUnusedVariablesS s d))]),
    ("varPos", Json.mkObj [("M", encErrs (variablesInAllowedPosition s d)), ("S", encErrs (variablesInAllowedPositionS s d))]),
    ("uniqueFragNames", uniqueFragNames d), ("locsDistinct", locsDistinct d), ("coherent", cohB s d (envM s d)), ("complete", compB s d (envM s d)),
    ("bounds", Json.mkObj [("sets", nSets d), ("spreadNames", nSpreadNames d), ("frags", nFrags d),
      ("fuel", fuelFor d)])]

end Driver.C02Overlap

def main : IO Unit := Driver.run (Driver.wrap Driver.C02Overlap.handle)
