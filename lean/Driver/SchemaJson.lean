import Driver.Common
import GqlModel.Schema
/-! Decoders for the wire formats of harness/gq: JVal (`{"$dec":[m,e]}` for decimals), type strings
(`[Int!]!`), and the schema description. -/
open Lean (Json)
open GqlModel

namespace Driver.SchemaJson

partial def decJVal (j : Json) : Except String JVal := do
  match j with
  | .null => return .null
  | .bool b => return .bool b
  | .str s => return .str s
  | .num n =>
    if n.exponent == 0 then return .int n.mantissa
    else
      -- normalise m·10^-e : strip trailing zeros
      let rec norm (m : Int) (e : Nat) (fuel : Nat) : JVal :=
        match fuel with
        | 0 => .dec m e
        | fuel + 1 => if e == 0 then .int m else if m % 10 == 0 then norm (m / 10) (e - 1) fuel else .dec m e
      return norm n.mantissa n.exponent 64
  | .arr xs => return .list (← xs.toList.mapM decJVal)
  | .obj kvs =>
    match j.getObjVal? "$dec" with
    | .ok (.arr #[m, e]) => return .dec (← m.getInt?) (← e.getNat?)
    | _ =>
      let fields ← kvs.toList.mapM (fun (k, v) => do return (k, ← decJVal v))
      return .obj fields

partial def encJVal : JVal → Json
  | .null => Json.null
  | .bool b => Json.bool b
  | .int i => Json.num (Lean.JsonNumber.fromInt i)
  | .dec m e => Json.mkObj [("$dec", Json.arr #[Json.num (Lean.JsonNumber.fromInt m), Json.num (Lean.JsonNumber.fromNat e)])]
  | .str s => Json.str s
  | .list xs => Json.arr (xs.map encJVal).toArray
  | .obj fs => Json.mkObj (fs.map (fun (k, v) => (k, encJVal v)))

/-- `[Int!]!` → GType; same grammar as gq.ParseType -/
partial def parseTypeChars : List Char → Except String (GType × List Char)
  | '[' :: rest => do
    let (inner, rest) ← parseTypeChars rest
    match rest with
    | ']' :: rest =>
      match rest with
      | '!' :: rest => return (.nonNull (.list inner), rest)
      | _ => return (.list inner, rest)
    | _ => throw "missing ]"
  | cs =>
    let isNameChar (c : Char) : Bool := c == '_' || c.isAlphanum
    let name := cs.takeWhile isNameChar
    let rest := cs.dropWhile isNameChar
    if name.isEmpty then throw s!"bad type {String.ofList cs}" else
    match rest with
    | '!' :: rest => return (.nonNull (.named (String.ofList name)), rest)
    | _ => return (.named (String.ofList name), rest)

def decType (s : String) : Except String GType := do
  let (t, rest) ← parseTypeChars s.trimAscii.toString.toList
  if rest.isEmpty then return t else throw s!"trailing characters in type {s}"

def strOr (j : Json) (k : String) (d : String) : String :=
  match j.getObjVal? k with
  | .ok (.str s) => s
  | _ => d

def boolOr (j : Json) (k : String) : Bool :=
  match j.getObjVal? k with
  | .ok (.bool b) => b
  | _ => false

def decArgs (j : Json) (k : String) : Except String (List ArgDef) :=
  match j.getObjVal? k with
  | .ok (.arr as) => as.toList.mapM (fun a => do
      let dflt ← if boolOr a "hasDefault" then (do
          let d ← decJVal ((a.getObjVal? "default").toOption.getD Json.null)
          pure (some d)) else pure none
      return ({ name := ← Driver.getStr a "name", type := ← decType (← Driver.getStr a "type"), default := dflt,
                              description := strOr a "desc" "" } : ArgDef))
  | _ => pure []

def decFields (j : Json) : Except String (List FieldDefS) :=
  match j.getObjVal? "fields" with
  | .ok (.arr fs) => fs.toList.mapM (fun f => do
      return ({ name := ← Driver.getStr f "name", type := ← decType (← Driver.getStr f "type"), args := ← decArgs f "args",
                              description := strOr f "desc" "", deprecation := strOr f "deprecation" "" } : FieldDefS))
  | _ => pure []

def decStrs (j : Json) (k : String) : Except String (List String) :=
  match j.getObjVal? k with
  | .ok (.arr xs) => xs.toList.mapM (·.getStr?)
  | _ => pure []

def decTable (j : Json) (k : String) : Except String (List (JVal × JVal)) :=
  match j.getObjVal? k with
  | .ok (.arr xs) => xs.toList.mapM (fun p => do
      match p with
      | .arr #[a, b] => return (← decJVal a, ← decJVal b)
      | _ => throw "bad table entry")
  | _ => pure []

def decTypeDef (j : Json) : Except String TypeDef := do
  let kind ← Driver.getStr j "kind"
  let name ← Driver.getStr j "name"
  let desc := strOr j "desc" ""
  match kind with
  | "SCALAR" =>
    let k : ScalarKind ← match strOr j "builtin" "" with
      | "Int" => pure ScalarKind.int | "Float" => pure .float | "String" => pure .string
      | "Boolean" => pure .boolean | "ID" => pure .id
      | _ => do pure (.custom (← decTable j "serialize") (← decTable j "parseValue") (← decTable j "parseLiteral"))
    return .scalar name k desc
  | "OBJECT" => return .object name (← decStrs j "interfaces") (← decFields j) (boolOr j "isTypeOf") desc
  | "INTERFACE" => return .interface name (← decFields j) (boolOr j "resolveType") desc
  | "UNION" => return .union name (← decStrs j "members") (boolOr j "resolveType") desc
  | "ENUM" =>
    let vals ← match j.getObjVal? "values" with
      | .ok (.arr vs) => vs.toList.mapM (fun v => do
          return ({ name := ← Driver.getStr v "name", internal := ← decJVal ((v.getObjVal? "internal").toOption.getD Json.null),
                              description := strOr v "desc" "", deprecation := strOr v "deprecation" "" } : EnumValueS))
      | _ => pure []
    return .enum name vals desc
  | "INPUT_OBJECT" =>
    let fs ← decArgs j "inputFields"
    return .inputObject name (fs.map (fun a => { name := a.name, type := a.type, default := a.default, description := a.description })) desc
  | _ => throw s!"bad type kind {kind}"

/-- the five built-in scalars are always present in the model schema -/
def builtinScalars : List TypeDef :=
  [.scalar "Int" .int "", .scalar "Float" .float "", .scalar "String" .string "", .scalar "Boolean" .boolean "", .scalar "ID" .id ""]

def decSchema (j : Json) : Except String Schema := do
  let types ← (← Driver.getArr j "types").toList.mapM decTypeDef
  let names := types.map (·.name)
  let types := types ++ builtinScalars.filter (fun b => !names.contains b.name)
  let dirs ← match j.getObjVal? "directives" with
    | .ok (.arr ds) => ds.toList.mapM (fun d => do
        return ({ name := ← Driver.getStr d "name", locations := ← decStrs d "locations", args := ← decArgs d "args",
                              description := strOr d "desc" "" } : DirectiveDefS))
    | _ => pure []
  let optStr (k : String) : Option String := match j.getObjVal? k with | .ok (.str s) => some s | _ => none
  return { types := types, query := ← Driver.getStr j "query", mutation := optStr "mutation",
                              subscription := optStr "subscription", directives := dirs }

end Driver.SchemaJson
