import Driver.Common
import Driver.SchemaJson
import Driver.AstJson
import GqlModel.Coerce
/-! Driver for C05 (input coercion).

`{"op":"point","schema":<gq.SchemaDesc>,"type":"[In0!]","value":<wire JVal> (key absent = no value case),
  "literal":<astjson Value>|null (key absent = no literal case; null = Go's nil ast.Value),"vars":{…}}`
→ the four functions (M), the specification (S), `strictlyTyped`, `conformant`, `varsProvided`.

`{"op":"exec","schema":…,"doc":<astjson Document>,"inputs":{…}}` for a document whose first operation's first
root field is `f(args…)`: `getVariableValues`, `getArgumentValues`, planned arguments, and S. -/
open Lean (Json)
open GqlModel GqlModel.Coerce
open Driver.SchemaJson

namespace Driver.C05

def encExcept (r : Except Spec.Err JVal) : Json :=
  match r with
  | .ok v => Json.mkObj [("ok", true), ("val", encJVal v)]
  | .error e => Json.mkObj [("ok", false), ("err", Json.str (reprStr e))]

def encFields (fs : List (String × JVal)) : Json := encJVal (.obj fs)

def decVars (j : Json) (k : String) : Except String Vars :=
  match j.getObjVal? k with
  | .ok v => do
    match ← decJVal v with
    | .obj fs => pure fs
    | .null => pure []
    | _ => throw s!"{k} must be an object"
  | .error _ => pure []

def point (j : Json) : Except String Json := do
  let s ← decSchema (← j.getObjVal? "schema")
  let t ← decType (← Driver.getStr j "type")
  let vars ← decVars j "vars"
  let mut out : List (String × Json) := []
  match j.getObjVal? "value" with
  | .ok vj =>
    let v ← decJVal vj
    let emb := embed s t v
    out := out ++ [("validInput", Json.bool (isValidInputValue s t v)), ("coerce", encJVal (coerceValue s t v)),
      ("strict", Json.bool (strictlyTyped s v t)), ("specVar", encExcept (Spec.coerceVariable s t (some v))),
      ("conformant", Json.bool (conformant s t v)),
      ("embedFromAST", encJVal (valueFromAST s t emb [])), ("embedValid", Json.bool (isValidLiteralValue s t emb))]
  | .error _ => pure ()
  match j.getObjVal? "literal" with
  | .ok lj =>
    let lit ← match lj with
      | .null => pure none
      | _ => do pure (some (← Driver.AstJson.decValue lj))
    out := out ++ [("validLit", Json.bool (isValidLiteralValue s t lit)), ("fromAST", encJVal (valueFromAST s t lit vars)),
      ("specLit", encExcept (Spec.coerceLiteral s t lit vars)), ("varsProvided", Json.bool (varsProvided s t lit vars)),
      ("hasVars", Json.bool (match lit with | some l => hasVars l | none => false)),
      ("fromASTNoVars", encJVal (valueFromAST s t lit []))]
  | .error _ => pure ()
  return Json.mkObj out

def firstOp (d : Document) : Except String (OpType × List VarDef × SelectionSet) :=
  match d.operations with
  | .operation op _ vars _ sel _ :: _ => pure (op, vars, sel)
  | _ => throw "no operation"

def firstField (sel : SelectionSet) : Except String (String × List Argument × Option SelectionSet) :=
  match sel.sels with
  | .field _ n args _ sub _ :: _ => pure (n.value, args, sub)
  | _ => throw "first selection is not a field"

/-- the field whose arguments are observed: the first root field, or — when that is the list field `items` — the
first field selected under it (the same planned field is then resolved once per item) -/
def observedField (s : Schema) (root : String) (sel : SelectionSet) : Except String (List ArgDef × List Argument) := do
  let (fname, asts, sub) ← firstField sel
  let fd ← match (s.objectFields root).find? (fun f => f.name == fname) with
    | some f => pure f
    | none => throw s!"no field {fname} on {root}"
  if fname == "items" then
    match sub with
    | some sub =>
      let (iname, iasts, _) ← firstField sub
      match (s.objectFields fd.type.namedName).find? (fun f => f.name == iname) with
      | some f => pure (f.args, iasts)
      | none => throw s!"no field {iname} on {fd.type.namedName}"
    | none => throw "items without selection"
  else pure (fd.args, asts)

def exec (j : Json) : Except String Json := do
  let s ← decSchema (← j.getObjVal? "schema")
  let doc ← Driver.AstJson.decDocument (← j.getObjVal? "doc")
  let inputs ← decVars j "inputs"
  let (op, vdefs, sel) ← firstOp doc
  let root ← match s.rootFor op.toString with
    | some r => pure r
    | none => throw s!"schema has no {op.toString} root"
  let (argDefs, asts) ← observedField s root sel
  -- M
  let mvars := getVariableValues s vdefs inputs
  -- S: every variable coerced by the specification
  let svars : Except Spec.Err Vars := (Spec.mapE (fun (d : VarDef) =>
      match Spec.variableValue s d (JVal.lookup inputs d.var.value) with
      | .error e => .error e
      | .ok r => .ok (d.var.value, r)) vdefs).map mkObj
  let strictInputs := vdefs.all (fun d => match d.type with
    | some tr => strictlyTyped s (lookupD inputs d.var.value) (typeOfRef tr)
    | none => false)
  let defaultsValid := vdefs.all (fun d => match d.type, d.default with
    | some tr, some dv => isValidLiteralValue s (typeOfRef tr) (some dv)
    | _, _ => true)
  let base : List (String × Json) := [
    ("strictInputs", Json.bool strictInputs), ("defaultsValid", Json.bool defaultsValid),
    ("specVars", match svars with
      | .ok v => Json.mkObj [("ok", true), ("val", encFields v)]
      | .error e => Json.mkObj [("ok", false), ("err", Json.str (reprStr e))])]
  match mvars with
  | .error e => return Json.mkObj (base ++ [("vars", Json.mkObj [("ok", false), ("err", Json.str e)])])
  | .ok vars =>
    let args := getArgumentValues s argDefs asts vars
    let planned := plannedArgs s (planArguments s argDefs asts) vars
    let sargs := Spec.argumentValues s argDefs asts vars
    let litsValid := argDefs.all (fun d => isValidLiteralValue s d.type (argLookup asts d.name))
    let provided := argDefs.all (fun d => varsProvided s d.type (argLookup asts d.name) vars)
    return Json.mkObj (base ++ [
      ("vars", Json.mkObj [("ok", true), ("val", encFields vars)]),
      ("args", encFields args), ("planned", encFields planned),
      ("static", Json.bool (!astHasVariables asts)),
      ("specArgs", match sargs with
        | .ok v => Json.mkObj [("ok", true), ("val", encFields v)]
        | .error e => Json.mkObj [("ok", false), ("err", Json.str (reprStr e))]),
      ("litsValid", Json.bool litsValid), ("varsProvided", Json.bool provided)])

def handle (j : Json) : Except String Json := do
  match ← Driver.getStr j "op" with
  | "point" => point j
  | "exec" => exec j
  | op => throw s!"unknown op {op}"

end Driver.C05

def main : IO Unit := Driver.run (Driver.wrap Driver.C05.handle)
