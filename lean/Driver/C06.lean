import Driver.Common
import Driver.AstJson
import Driver.SchemaJson
import GqlModel.PlanCache
import GqlModel.Normalize
/-! Driver for C06.  All byte strings travel hex-encoded (queries may contain any byte).

History request
  {"mode":"raw"|"norm", "cfg":{"maxEntries":int,"maxBytes":int,"nil":bool}, "pool":[hex…], "keys":"each"|"final",
   "ops":[ {"get":[slot,queryIx,opNameHex]}                       raw mode
         | {"get":[slot,queryIx,opNameHex],"n":"parse"|"norm"|"ok","nk":hex}   norm mode: what parse+normalizeDocument gave
         | "reset" | {"replace":slot} | "noop" ]}
→ {"steps":[{"o":"hit"|"miss"|"bypass"|"nolookup"|"-","built":i,"synthOwn":bool,"len":n,"hits":h,"misses":m,"keys":[hex…]?}…],
   "keys":[hex…], "len":n, "hits":h, "misses":m}
The stored "result" is the index of the operation that built it (`build := fun _ _ _ => i` at step i), so the
harness can check that a hit hands back exactly the plan that operation stored.

Normaliser request   {"norm":{"schema":<gq.SchemaDesc>,"doc":<astjson document>,"opName":str}}
→ {"out":"na"|"rooterr"|"ok","printed":text of the normalised document,"synth":{name: wire value}}   (GqlModel.Normalize)

Fingerprint request  {"fp":{"frags":[…],"op":{…},"opName":hex}} → {"fp":hex,"bytes":hex}  (see decoders below). -/
open Lean GqlModel.PlanCache

namespace Driver.C06

def hexVal (c : Char) : Option Nat :=
  if '0' ≤ c ∧ c ≤ '9' then some (c.toNat - '0'.toNat)
  else if 'a' ≤ c ∧ c ≤ 'f' then some (c.toNat - 'a'.toNat + 10)
  else none

def unhexList : List Char → Except String (List UInt8)
  | [] => pure []
  | [_] => throw "odd hex length"
  | a :: b :: rest => do
    match hexVal a, hexVal b with
    | some x, some y => do
      let r ← unhexList rest
      pure (UInt8.ofNat (x * 16 + y) :: r)
    | _, _ => throw "bad hex digit"

def unhex (s : String) : Except String Bytes := unhexList s.toList

def hexChar (n : Nat) : Char := if n < 10 then Char.ofNat (48 + n) else Char.ofNat (87 + n)

def enhex (bs : Bytes) : String :=
  String.ofList (bs.flatMap fun b => [hexChar (b.toNat / 16), hexChar (b.toNat % 16)])

def encKeys (ks : List Bytes) : Json := Json.arr (ks.map (fun k => Json.str (enhex k))).toArray

def outcomeStr : Outcome → String
  | .hit => "hit" | .miss => "miss" | .bypass => "bypass" | .noLookup => "nolookup"

inductive DOp where
  | get (slot : Nat) (q op : Bytes) (n : NormOut Unit)
  | reset
  | replace (slot : Nat)
  | noop

def decOp (pool : Array Bytes) (j : Json) : Except String DOp := do
  match j with
  | .str "reset" => pure .reset
  | .str "noop" => pure .noop
  | _ =>
    match Driver.getOpt j "replace" with
    | some v => pure (.replace (← v.getNat?))
    | none =>
      let a ← Driver.getArr j "get"
      match a.toList with
      | [s, qi, opn] => do
        let s ← s.getNat?
        let qi ← qi.getNat?
        let opn ← unhex (← opn.getStr?)
        let some q := pool[qi]? | throw "query index out of range"
        let n ← match Driver.getOpt j "n" with
          | none => pure (NormOut.ok [] ())
          | some (.str "parse") => pure NormOut.parseErr
          | some (.str "norm") => pure NormOut.normErr
          | some (.str "ok") => do
            let nk ← unhex (← Driver.getStr j "nk")
            pure (NormOut.ok nk ())
          | some _ => throw "bad n"
        pure (.get s q opn n)
      | _ => throw "get must be [slot,queryIx,opNameHex]"

structure St where
  cache : Option (Cache Nat Nat)
  ptr : Nat → Nat
  next : Nat

def snapshot (c : Option (Cache Nat Nat)) (withKeys : Bool) : List (String × Json) :=
  match c with
  | none => [("len", Json.num 0), ("hits", Json.num 0), ("misses", Json.num 0)] ++ (if withKeys then [("keys", encKeys [])] else [])
  | some c => [("len", Json.num c.items.length), ("hits", Json.num c.hits), ("misses", Json.num c.misses)] ++
      (if withKeys then [("keys", encKeys (keysOf c))] else [])

def stepRaw (i : Nat) (st : St) : DOp → St × List (String × Json)
  | .get slot q op _ =>
    -- the model's slot-history step (theorem transparent_slots is about this function)
    let y : Sys Nat := ⟨st.cache, st.ptr, st.next⟩
    let (y', out) := stepH (fun _ _ _ => i) y (.get slot q op)
    let o := match out with
      | some (built, oc) => [("o", Json.str (outcomeStr oc)), ("built", Json.num built)]
      | none => [("o", Json.str "-")]
    (⟨y'.cache, y'.ptr, y'.next⟩, o)
  | .reset =>
    let y : Sys Nat := ⟨st.cache, st.ptr, st.next⟩
    let (y', _) := stepH (fun _ _ _ => i) y .reset
    (⟨y'.cache, y'.ptr, y'.next⟩, [("o", Json.str "-")])
  | .replace slot =>
    let y : Sys Nat := ⟨st.cache, st.ptr, st.next⟩
    let (y', _) := stepH (fun _ _ _ => i) y (.replace slot)
    (⟨y'.cache, y'.ptr, y'.next⟩, [("o", Json.str "-")])
  | .noop => (st, [("o", Json.str "-")])

def stepN (fb : KeyShape) (i : Nat) (st : St) : DOp → St × List (String × Json)
  | .get slot q op n =>
    match st.cache with
    | none => (st, [("o", Json.str "bypass"), ("built", Json.num i)])     -- nil receiver: planAndValidate
    | some c =>
      let (c', out) := stepNorm (A := Unit) fb (fun _ _ _ => n) (fun _ _ _ => i) (fun _ _ _ => i) (fun _ _ _ => i)
        (fun _ => false) c (.get (st.ptr slot) q op)
      let o := match out with
        | some (r, oc) => [("o", Json.str (outcomeStr oc)), ("built", Json.num r.res), ("synthOwn", Json.bool r.synth.isSome)]
        | none => [("o", Json.str "-")]
      ({ st with cache := some c' }, o)
  | .reset => ({ st with cache := resetOpt st.cache }, [("o", Json.str "-")])
  | .replace slot => ({ st with ptr := fun j => if j = slot then st.next else st.ptr j, next := st.next + 1 }, [("o", Json.str "-")])
  | .noop => (st, [("o", Json.str "-")])

def runAll (fb : KeyShape) (norm : Bool) (each : Bool) : Nat → St → List DOp → List Json → St × List Json
  | _, st, [], acc => (st, acc.reverse)
  | i, st, o :: os, acc =>
    let (st', fields) := if norm then stepN fb i st o else stepRaw i st o
    runAll fb norm each (i + 1) st' os (Json.mkObj (fields ++ snapshot st'.cache each) :: acc)

def handleHistory (j : Json) : Except String Json := do
  let mode ← Driver.getStr j "mode"
  let cfg ← j.getObjVal? "cfg"
  let me ← Driver.getInt cfg "maxEntries"
  let mb ← Driver.getInt cfg "maxBytes"
  let isNil ← Driver.getBool cfg "nil"
  let pool ← (← Driver.getArr j "pool").mapM (fun p => do unhex (← p.getStr?))
  let ops ← (← Driver.getArr j "ops").toList.mapM (decOp pool)
  let each := (Driver.getStr j "keys").toOption == some "each"
  let norm := mode == "norm"
  let c0 : Option (Cache Nat Nat) := if isNil then none else some (newPlanCache ⟨me, mb, norm⟩)
  let st0 : St := ⟨c0, fun i => i, 1000⟩
  -- which key construction the code under test uses (found out by the harness): "coded" = operationName + "\x00" +
  -- normKey with the fallback "raw:" + hex of FNV-1a-64 of the query; "repaired" = after D-06k.diff: the same
  -- join, fallback "raw:" + query
  let fb ← match (Driver.getStr cfg "keyShape").toOption with
    | none => pure keyShapeCoded
    | some "coded" => pure keyShapeCoded
    | some "repaired" => pure keyShapeRepaired
    | some o => throw s!"unknown key shape {o}"
  let (st, steps) := runAll fb norm each 0 st0 ops []
  return Json.mkObj ([("steps", Json.arr steps.toArray)] ++ snapshot st.cache true)

/-! ### fingerprint -/
open GqlModel.PlanCache.Fp

def optHex (j : Json) (k : String) : Except String (Option Bytes) :=
  match Driver.getOpt j k with
  | none => pure none
  | some v => do pure (some (← unhex (← v.getStr?)))

partial def decTy (j : Json) : Except String Ty := do
  match Driver.getOpt j "n" with
  | some v => pure (.named (← unhex (← v.getStr?)))
  | none =>
    match Driver.getOpt j "l" with
    | some v => pure (.list (← decTy v))
    | none => pure (.nonNull (← decTy (← j.getObjVal? "nn")))

partial def decVal (j : Json) : Except String Val := do
  let k ← Driver.getStr j "k"
  let bytes : Except String Bytes := do unhex (← Driver.getStr j "v")
  match k with
  | "var" => pure (.var (← bytes))
  | "int" => pure (.int (← bytes))
  | "float" => pure (.float (← bytes))
  | "str" => pure (.str (← bytes))
  | "enum" => pure (.enum (← bytes))
  | "bool" => pure (.bool (← Driver.getBool j "b"))
  | "list" => pure (.list (← (← Driver.getArr j "vs").toList.mapM decVal))
  | "obj" => pure (.obj (← (← Driver.getArr j "fs").toList.mapM decNamed))
  | _ => throw s!"bad value kind {k}"
where
  decNamed (p : Json) : Except String (Bytes × Val) := do
    match (← p.getArr?).toList with
    | [n, v] => pure (← unhex (← n.getStr?), ← decVal v)
    | _ => throw "named value must be [nameHex, value]"

def decDir (j : Json) : Except String Directive := do
  pure ⟨← unhex (← Driver.getStr j "name"), ← (← Driver.getArr j "args").toList.mapM decVal.decNamed⟩

partial def decSel (j : Json) : Except String Sel := do
  let k ← Driver.getStr j "k"
  let dirs ← (← Driver.getArr j "dirs").toList.mapM decDir
  match k with
  | "field" =>
    let sub ← match Driver.getOpt j "sub" with
      | none => pure none
      | some v => do pure (some (← (← v.getArr?).toList.mapM decSel))
    pure (.field (← optHex j "alias") (← unhex (← Driver.getStr j "name"))
      (← (← Driver.getArr j "args").toList.mapM decVal.decNamed) dirs sub)
  | "inline" => pure (.inline (← optHex j "tc") dirs (← (← Driver.getArr j "sub").toList.mapM decSel))
  | "spread" => pure (.spread (← unhex (← Driver.getStr j "name")) dirs)
  | _ => throw s!"bad selection kind {k}"

def decVarDef (j : Json) : Except String VarDef := do
  let d ← match Driver.getOpt j "default" with
    | none => pure none
    | some v => do pure (some (← decVal v))
  pure ⟨← unhex (← Driver.getStr j "name"), ← decTy (← j.getObjVal? "type"), d⟩

def decFrag (j : Json) : Except String Frag := do
  pure ⟨← unhex (← Driver.getStr j "name"), ← unhex (← Driver.getStr j "tc"),
    ← (← Driver.getArr j "dirs").toList.mapM decDir, ← (← Driver.getArr j "sel").toList.mapM decSel⟩

def decOpDef (j : Json) : Except String OpDef := do
  pure ⟨← unhex (← Driver.getStr j "operation"), ← (← Driver.getArr j "varDefs").toList.mapM decVarDef,
    ← (← Driver.getArr j "dirs").toList.mapM decDir, ← (← Driver.getArr j "sel").toList.mapM decSel⟩

def handleFp (j : Json) : Except String Json := do
  let frags ← (← Driver.getArr j "frags").toList.mapM decFrag
  let o ← decOpDef (← j.getObjVal? "op")
  let opName ← unhex (← Driver.getStr j "opName")
  let fuel ← Driver.getNat j "fuel"
  let bytes := fingerprintBytes frags o opName fuel
  return Json.mkObj [("fp", Json.str (String.ofList ((fingerprint frags o opName fuel).map (fun b => Char.ofNat b.toNat)))),
    ("bytes", Json.str (enhex bytes))]

def handleNorm (j : Json) : Except String Json := do
  let s ← Driver.SchemaJson.decSchema (← j.getObjVal? "schema")
  let doc ← Driver.AstJson.decDocument (← j.getObjVal? "doc")
  let opName ← Driver.getStr j "opName"
  match GqlModel.Normalize.normalizeDocument s doc opName with
  | .notApplicable => return Json.mkObj [("out", "na")]
  | .rootError => return Json.mkObj [("out", "rooterr")]
  | .ok d synth =>
    return Json.mkObj [("out", "ok"), ("printed", Json.str (GqlModel.Printer.print d)),
      ("printedKey", Json.str (enhex (GqlModel.Normalize.printedKey d))),
      ("synth", Json.mkObj (synth.map (fun (k, v) => (k, Driver.SchemaJson.encJVal v))))]

/-! ### interleaved primitives (nested / concurrent Gets): `lookup` and `store` as separate steps -/

def decPrim (j : Json) : Except String (Prim Nat) := do
  match j with
  | .str "reset" => pure .reset
  | _ =>
    match (← j.getArr?).toList with
    | [k, s, key] => do
      let kind ← k.getStr?
      let s ← s.getNat?
      let key ← unhex (← key.getStr?)
      if kind == "lookup" then pure (.lookup s key)
      else if kind == "store" then pure (.store s key)
      else throw s!"bad primitive {kind}"
    | _ => throw "primitive must be [kind, schemaPtr, keyHex]"

/-- each `store` stores its own step index (the harness knows which `Get` that was); each step is the model's
`stepPrim store` (theorem `interleaved_transparent` is about `runPrim store`) -/
def runPrims : Nat → Cache Nat Nat → List (Prim Nat) → List Json → List Json
  | _, _, [], acc => acc.reverse
  | i, c, o :: os, acc =>
    let (c', out) := stepPrim store (fun _ _ => i) c o
    let o := match out with
      | some (some r) => [("o", Json.str "hit"), ("built", Json.num r)]
      | some none => [("o", Json.str "miss")]
      | none => [("o", Json.str "-")]
    runPrims (i + 1) c' os (Json.mkObj (o ++ snapshot (some c') true) :: acc)

def handlePrims (j : Json) : Except String Json := do
  let me ← Driver.getInt j "maxEntries"
  let ops ← (← Driver.getArr j "ops").toList.mapM decPrim
  let c0 : Cache Nat Nat := newPlanCache ⟨me, 0, false⟩
  return Json.mkObj [("steps", Json.arr (runPrims 0 c0 ops []).toArray)]

def handle (j : Json) : Except String Json :=
  match Driver.getOpt j "fp" with
  | some f => handleFp f
  | none =>
    match Driver.getOpt j "norm" with
    | some n => handleNorm n
    | none =>
      match Driver.getOpt j "prims" with
      | some p => handlePrims p
      | none => handleHistory j

end Driver.C06

def main : IO Unit := Driver.run (Driver.wrap Driver.C06.handle)
