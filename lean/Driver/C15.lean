import Driver.Common
import GqlModel.Subscription
/-! Driver for C15.
in : {"req": {"kind":"stream","events":[[kind,n],…]} | {"kind":"oneShot","r":RES} | {"kind":"invalid","r":RES},
      "key": response key of the root field (alias, default "tick"), "nonNull": the root field's type is non-null (a null
      root field then nulls the whole data),
      "expect": [canonical result of event i, …] (optional; used by events of kind 99: [99,i]),
      "acts": ["produce"|"produceCtx"|"deliver"|"cancel"|"closeSource"|"observeCancel"|"finish"|"pause"|"resume"|"stop", …]}
     RES = {"t":"mapped","k":kind,"n":n} | {"t":"ctx"} | {"t":"opaque","s":"<canonical result>"}
out: {"valid":bool, "failedAt":index|null, "failedAct":name, "delivered":[canonical result…], "closed":bool,
      "alive":bool, "terminal":bool, "cancelled":bool, "fwd":"idle|holding|final|done", "consumer":…, "pending":n,
      "enabled":[action names enabled in the last state reached]}
The model is run on the schedule; at the first action that is not enabled the run stops and the state reached so
far is reported. Event kinds: 0 resolves, 1 the root field's resolver fails, 2 a nullable leaf fails, 3 a non-null
leaf yields null; 4 nil, 5 empty map, 6 typed nil pointer, 7 false, 8 the int 0, 9 "", 10 empty slice, 11 the root resolver panics, 12 the root resolver returns nil (the root
resolver reports which of these it saw: 41,41,42,43,44,45,46 as `n`). Canonical result = {"data":…, "errs":[{"path":[…],"ctx":bool}…]} (messages dropped). -/
open Lean GqlModel.Subscription

namespace Driver.C15

inductive R where
  | mapped (k n : Nat)
  | ctx
  | opaque (s : String)
deriving DecidableEq

abbrev E := Nat × Nat

def cfg : Cfg E R := { exec := fun e => .mapped e.1 e.2, ctxErr := .ctx }

def errEntry (path : List String) (isCtx : Bool) : Json :=
  Json.mkObj [("path", Json.arr (path.map Json.str).toArray), ("ctx", Json.bool isCtx)]

/-- the root field came back null because of the error at `path`: with a nullable root field the data is
`{key: null}`, with a non-null one the null propagates and the whole data is null -/
def rootNull (key : String) (nonNull : Bool) (paths : List (List String)) : Json :=
  Json.mkObj [("data", if nonNull then Json.null else Json.mkObj [(key, Json.null)]),
              ("errs", Json.arr (paths.map (fun p => errEntry p false)).toArray)]

def tickObj (n : Nat) (twice : Json) : Json :=
  Json.mkObj [("n", Json.num (n : JsonNumber)), ("twice", twice), ("must", Json.num 1)]

def canonical (key : String) (nonNull : Bool) (expect : Array String) : R → Json
  | .mapped 99 n =>
    -- subscription with variables: the reference result of event n (the same selection executed on the event
    -- with the raw variables), supplied with the request
    (match Json.parse (expect.getD n "\"missing reference\"") with
     | .ok j => j
     | .error _ => Json.str "unparsable reference")
  | .mapped 0 n => Json.mkObj [("data", Json.mkObj [(key, tickObj n (Json.num ((2 * n : Nat) : JsonNumber)))]), ("errs", Json.arr #[])]
  | .mapped 1 _ => rootNull key nonNull [[key]]                 -- the root resolver returns an error
  | .mapped 2 n => Json.mkObj [("data", Json.mkObj [(key, tickObj n Json.null)]), ("errs", Json.arr #[errEntry [key, "twice"] false])]
  | .mapped 3 _ => rootNull key nonNull [[key, "must"]]         -- a non-null leaf yields null
  | .mapped 11 _ => rootNull key nonNull [[key]]                -- the root resolver panics
  | .mapped 12 _ => rootNull key nonNull (if nonNull then [[key]] else [])  -- the root resolver returns nil
  | .mapped k _ =>
    -- closure look-alike payloads: the root resolver reports what it was given (nil arrives as an empty map)
    let code : Nat := match k with
      | 4 => 41 | 5 => 41 | 6 => 42 | 7 => 43 | 8 => 44 | 9 => 45 | _ => 46
    Json.mkObj [("data", Json.mkObj [(key, tickObj code (Json.num ((2 * code : Nat) : JsonNumber)))]), ("errs", Json.arr #[])]
  | .ctx => Json.mkObj [("data", Json.null), ("errs", Json.arr #[errEntry [] true])]
  | .opaque s => match Json.parse s with
    | .ok j => j
    | .error _ => Json.str s

def decRes (j : Json) : Except String R := do
  match ← Driver.getStr j "t" with
  | "mapped" => return .mapped (← Driver.getNat j "k") (← Driver.getNat j "n")
  | "ctx" => return .ctx
  | "opaque" => return .opaque (← Driver.getStr j "s")
  | t => throw s!"unknown result tag {t}"

def decReq (j : Json) : Except String (Request E R) := do
  match ← Driver.getStr j "kind" with
  | "stream" =>
    let evs ← (← Driver.getArr j "events").toList.mapM (fun e => do
      match (← e.getArr?).toList with
      | [k, n] => pure ((← k.getNat?), (← n.getNat?))
      | _ => throw "event must be [kind,n]")
    return .stream evs
  | "oneShot" => return .oneShot (← decRes (← j.getObjVal? "r"))
  | "invalid" => return .invalid (← decRes (← j.getObjVal? "r"))
  | k => throw s!"unknown request kind {k}"

def actNames : List (String × Act) :=
  [("produce", .produce false), ("produceCtx", .produce true), ("deliver", .deliver), ("cancel", .cancel),
   ("closeSource", .closeSource), ("observeCancel", .observeCancel), ("finish", .finish),
   ("pause", .pause), ("resume", .resume), ("stop", .stop)]

def decAct (s : String) : Except String Act :=
  match actNames.find? (fun p => p.1 == s) with
  | some p => pure p.2
  | none => throw s!"unknown action {s}"

/-- run as far as possible: (state reached, index of the first disabled action) -/
def runPrefix (s : St E R) (i : Nat) : List Act → St E R × Option Nat
  | [] => (s, none)
  | a :: as =>
    match step cfg s a with
    | none => (s, some i)
    | some t => runPrefix t (i + 1) as

def handle (j : Json) : Except String Json := do
  let req ← decReq (← j.getObjVal? "req")
  let names ← (← Driver.getArr j "acts").toList.mapM (fun a => a.getStr?)
  let acts ← names.mapM decAct
  let key := match Driver.getOpt j "key" with
    | some (.str k) => k
    | _ => "tick"
  let nonNull := match Driver.getOpt j "nonNull" with
    | some (.bool b) => b
    | _ => false
  let expect ← match Driver.getOpt j "expect" with
    | some a => (← a.getArr?).mapM (fun x => x.getStr?)
    | none => pure #[]
  let (s, failed) := runPrefix (init req) 0 acts
  let fwd := match s.fwd with | .idle => "idle" | .holding _ => "holding" | .final _ => "final" | .done => "done"
  let cons := match s.consumer with | .reading => "reading" | .slow => "slow" | .stopped => "stopped"
  let enabled := (actNames.filter (fun p => (step cfg s p.2).isSome)).map (fun p => Json.str p.1)
  return Json.mkObj [
    ("valid", Json.bool failed.isNone),
    ("failedAt", match failed with | none => Json.null | some i => Json.num i),
    ("failedAct", match failed with | none => Json.null | some i => Json.str (names.getD i "")),
    ("delivered", Json.arr (s.delivered.map (canonical key nonNull expect)).toArray),
    ("closed", Json.bool s.closedSeen), ("alive", Json.bool s.goroutineAlive),
    ("terminal", Json.bool (s.terminal cfg)), ("cancelled", Json.bool s.cancelled),
    ("fwd", Json.str fwd), ("consumer", Json.str cons), ("pending", Json.num s.pending.length),
    ("enabled", Json.arr enabled.toArray)]

end Driver.C15

def main : IO Unit := Driver.run (Driver.wrap Driver.C15.handle)
