import Driver.Common
import GqlModel.SchemaBuild
import GqlModel.SchemaBuildBridge
import GqlModel.SchemaLive
/-! Driver for C11.
request  `{"config": CFG, "appendOrder": [TREF…], "real": DUMP?}`
response `{"wf": bool, "outcome": OUTCOME, "real": {"consistent": b, "parts": {...}}?}` where
OUTCOME = `{"ok": bool, "err": class?, "assertErrs": [class…]?, "dump": DUMP?, "consistent": bool?, "parts": {...}?}`
(`outcome` = M: `newSchema` then `appendType` for each entry of `appendOrder`; `real` = S evaluated on the dump of the
real schema).

TREF = null | n (type object id) | {"list": TREF} | {"nonNull": TREF} | {"nilptr": KIND}
CFG  = {"types":[TYPE…], "query": id|null, "mutation":…, "subscription":…, "extra":[TREF…], "directives":[DIR|null…]}
DUMP = {"table":[BTYPE…], "typeMap":[[key,id]…], "query":…, "mutation":…, "subscription":…,
        "possibleTypes":[[a,[o…]]…], "isPossible":[[a,o]…]} -/
open Lean GqlModel GqlModel.SchemaBuild

namespace Driver.C11

def decKind (s : String) : Except String Kind :=
  match s with
  | "SCALAR" => pure .scalar | "OBJECT" => pure .object | "INTERFACE" => pure .interface | "UNION" => pure .union
  | "ENUM" => pure .enum | "INPUT_OBJECT" => pure .inputObject | "LIST" => pure .list | "NON_NULL" => pure .nonNull
  | _ => throw s!"bad kind {s}"
def encKind : Kind → String
  | .scalar => "SCALAR" | .object => "OBJECT" | .interface => "INTERFACE" | .union => "UNION"
  | .enum => "ENUM" | .inputObject => "INPUT_OBJECT" | .list => "LIST" | .nonNull => "NON_NULL"

def decForm (j : Json) (k : String) : Except String Form :=
  match j.getObjVal? k with
  | .ok (.str "direct") => pure .direct
  | .ok (.str "thunk") => pure .thunk
  | .ok (.str "absent") => pure .absent
  | .ok (.str "unknown") => pure .unknown
  | .ok v => throw s!"bad form {v.compress}"
  | .error _ => pure .direct

partial def decTRef (j : Json) : Except String TRef :=
  match j with
  | .null => pure .nil
  | .num _ => do return .ref (← j.getNat?)
  | _ =>
    match j.getObjVal? "list" with
    | .ok t => do return .list (← decTRef t)
    | .error _ =>
      match j.getObjVal? "nonNull" with
      | .ok t => do return .nonNull (← decTRef t)
      | .error _ =>
        match j.getObjVal? "nilptr" with
        | .ok (.str k) => do return .nilPtr (← decKind k)
        | _ => throw s!"bad type reference {j.compress}"

partial def encTRef : TRef → Json
  | .nil => Json.null
  | .nilPtr k => Json.mkObj [("nilptr", Json.str (encKind k))]
  | .ref i => Json.num (JsonNumber.fromNat i)
  | .list t => Json.mkObj [("list", encTRef t)]
  | .nonNull t => Json.mkObj [("nonNull", encTRef t)]

def boolD (j : Json) (k : String) (d : Bool) : Bool :=
  match j.getObjVal? k with
  | .ok (.bool b) => b
  | _ => d

def arrD (j : Json) (k : String) : List Json :=
  match j.getObjVal? k with
  | .ok (.arr a) => a.toList
  | _ => []

def typeD (j : Json) (k : String) : Except String TRef :=
  match j.getObjVal? k with
  | .ok v => decTRef v
  | .error _ => pure .nil

def decArg (j : Json) : Except String ArgCfg := do
  return { name := ← Driver.getStr j "name", present := boolD j "present" true, type := ← typeD j "type" }

def decField (j : Json) : Except String FieldCfg := do
  return { name := ← Driver.getStr j "name", present := boolD j "present" true, type := ← typeD j "type",
           args := ← (arrD j "args").mapM decArg }

def decOptNat (j : Json) : Except String (Option Nat) :=
  match j with
  | .null => pure none
  | _ => do return some (← j.getNat?)

def optNatD (j : Json) (k : String) : Except String (Option Nat) :=
  match j.getObjVal? k with
  | .ok v => decOptNat v
  | .error _ => pure none

def decPairSB (j : Json) : Except String (String × Bool) := do
  match (← j.getArr?).toList with
  | [a, b] => return (← a.getStr?, ← b.getBool?)
  | _ => throw "expected [string,bool]"

def decType (j : Json) : Except String TypeCfg := do
  return { kind := ← decKind (← Driver.getStr j "kind"), name := ← Driver.getStr j "name",
           form := ← decForm j "form", fields := ← (arrD j "fields").mapM decField,
           inputFields := ← (arrD j "inputFields").mapM decArg,
           refsForm := ← decForm j "refsForm", refs := ← (arrD j "refs").mapM decOptNat,
           resolver := boolD j "resolver" true, values := ← (arrD j "values").mapM decPairSB,
           serialize := boolD j "serialize" true, parseValue := boolD j "parseValue" true,
           parseLiteral := boolD j "parseLiteral" true }

def decDir (j : Json) : Except String (Option DirCfg) :=
  match j with
  | .null => pure none
  | _ => do
    return some { name := ← Driver.getStr j "name", locations := ← Driver.getNat j "locations",
                  args := ← (arrD j "args").mapM decArg }

def decConfig (j : Json) : Except String Config := do
  return { types := ← (arrD j "types").mapM decType, query := ← optNatD j "query",
           mutation := ← optNatD j "mutation", subscription := ← optNatD j "subscription",
           extra := ← (arrD j "extra").mapM decTRef, directives := ← (arrD j "directives").mapM decDir }

/-! dumps -/

def encNat (n : Nat) : Json := Json.num (JsonNumber.fromNat n)
def encOptNat : Option Nat → Json
  | none => Json.null
  | some n => encNat n
def encNats (l : List Nat) : Json := Json.arr (l.map encNat).toArray

def encBArg (a : BArg) : Json := Json.mkObj [("name", a.name), ("type", encTRef a.type)]
def encBField (f : BField) : Json :=
  Json.mkObj [("name", f.name), ("type", encTRef f.type), ("args", Json.arr (f.args.map encBArg).toArray)]
def encBType (t : BType) : Json :=
  Json.mkObj [("kind", encKind t.kind), ("name", t.name), ("fields", Json.arr (t.fields.map encBField).toArray),
    ("inputFields", Json.arr (t.inputFields.map encBArg).toArray), ("interfaces", encNats t.interfaces),
    ("members", encNats t.members), ("values", Json.arr (t.values.map Json.str).toArray), ("resolver", t.resolver)]

def encDump (s : BuiltSchema) : Json :=
  Json.mkObj [("table", Json.arr (s.table.map encBType).toArray),
    ("typeMap", Json.arr (s.typeMap.map (fun p => Json.arr #[Json.str p.1, encNat p.2])).toArray),
    ("query", encOptNat s.query), ("mutation", encOptNat s.mutation), ("subscription", encOptNat s.subscription),
    ("possibleTypes", Json.arr (s.possibleTypes.map (fun p => Json.arr #[encNat p.1, encNats p.2])).toArray),
    ("isPossible", Json.arr (s.isPossible.map (fun p => Json.arr #[encNat p.1, encNat p.2])).toArray),
    ("directives", Json.arr (s.directives.map (fun d =>
      Json.mkObj [("name", d.1), ("args", Json.arr (d.2.map encBArg).toArray)])).toArray)]

def decBArg (j : Json) : Except String BArg := do
  return { name := ← Driver.getStr j "name", type := ← typeD j "type" }
def decBField (j : Json) : Except String BField := do
  return { name := ← Driver.getStr j "name", type := ← typeD j "type", args := ← (arrD j "args").mapM decBArg }
def decNats (j : Json) (k : String) : Except String (List Nat) := (arrD j k).mapM (fun v => v.getNat?)
def decBType (j : Json) : Except String BType := do
  return { kind := ← decKind (← Driver.getStr j "kind"), name := ← Driver.getStr j "name",
           fields := ← (arrD j "fields").mapM decBField, inputFields := ← (arrD j "inputFields").mapM decBArg,
           interfaces := ← decNats j "interfaces", members := ← decNats j "members",
           values := ← (arrD j "values").mapM (fun v => v.getStr?), resolver := boolD j "resolver" false }

def decDump (j : Json) : Except String BuiltSchema := do
  let tm ← (arrD j "typeMap").mapM (fun p => do
    match (← p.getArr?).toList with
    | [k, i] => return (← k.getStr?, ← i.getNat?)
    | _ => throw "typeMap entry must be [key,id]")
  let pt ← (arrD j "possibleTypes").mapM (fun p => do
    match (← p.getArr?).toList with
    | [a, os] => return (← a.getNat?, ← (← os.getArr?).toList.mapM (fun v => v.getNat?))
    | _ => throw "possibleTypes entry must be [id,[ids]]")
  let ip ← (arrD j "isPossible").mapM (fun p => do
    match (← p.getArr?).toList with
    | [a, o] => return (← a.getNat?, ← o.getNat?)
    | _ => throw "isPossible entry must be [a,o]")
  return { table := ← (arrD j "table").mapM decBType, typeMap := tm, query := ← optNatD j "query",
           mutation := ← optNatD j "mutation", subscription := ← optNatD j "subscription",
           possibleTypes := pt, isPossible := ip,
           directives := ← (arrD j "directives").mapM (fun d => do
             return (← Driver.getStr d "name", ← (arrD d "args").mapM decBArg)) }

/-! the translated schema (`BuiltSchema.toSchema`) in the style of the gq wire format -/

def encArgDef (a : ArgDef) : Json := Json.mkObj [("name", a.name), ("type", a.type.render)]
def encFieldDef (f : FieldDefS) : Json :=
  Json.mkObj [("name", f.name), ("type", f.type.render), ("args", Json.arr (f.args.map encArgDef).toArray)]
def strs (l : List String) : Json := Json.arr (l.map Json.str).toArray

def encTypeDef : TypeDef → Json
  | .scalar n k _ => Json.mkObj [("kind", "SCALAR"), ("name", n),
      ("builtin", match k with | .custom .. => false | _ => true)]
  | .object n ifs fs b _ => Json.mkObj [("kind", "OBJECT"), ("name", n), ("interfaces", strs ifs),
      ("fields", Json.arr (fs.map encFieldDef).toArray), ("isTypeOf", b)]
  | .interface n fs b _ => Json.mkObj [("kind", "INTERFACE"), ("name", n),
      ("fields", Json.arr (fs.map encFieldDef).toArray), ("resolveType", b)]
  | .union n ms b _ => Json.mkObj [("kind", "UNION"), ("name", n), ("members", strs ms), ("resolveType", b)]
  | .enum n vs _ => Json.mkObj [("kind", "ENUM"), ("name", n), ("values", strs (vs.map (·.name)))]
  | .inputObject n fs _ => Json.mkObj [("kind", "INPUT_OBJECT"), ("name", n),
      ("inputFields", Json.arr (fs.map (fun f => Json.mkObj [("name", f.name), ("type", f.type.render)])).toArray)]

def encOptStr : Option String → Json
  | none => Json.null
  | some s => Json.str s

def encSchema (s : Schema) : Json :=
  Json.mkObj [("query", s.query), ("mutation", encOptStr s.mutation), ("subscription", encOptStr s.subscription),
    ("types", Json.arr (s.types.map encTypeDef).toArray),
    ("directives", Json.arr (s.directives.map (fun d =>
      Json.mkObj [("name", d.name), ("args", Json.arr (d.args.map encArgDef).toArray)])).toArray),
    ("possible", Json.arr ((s.types.filter (fun t => s.isAbstract t.name)).map (fun t =>
      Json.mkObj [("abstract", t.name), ("types", strs (s.possibleTypes t.name))])).toArray)]

def encParts (s : BuiltSchema) : Json :=
  Json.mkObj [("names", s.namesOk), ("closed", s.closed), ("builtins", s.hasBuiltins), ("positions", s.positionsOk),
    ("conformance", s.conformanceOk), ("possible", s.possibleOk)]

def encErr (e : Err) : String := (reprStr e).replace "GqlModel.SchemaBuild.Err." ""

/-- when the assertion loops fail: every class they can report first under some map iteration order -/
def assertErrSet (cfg : Config) (order : List TRef) : List Err :=
  let rec go (s : St) : List TRef → List Err
    | [] => []
    | t :: rest =>
      match appendTM cfg s t with
      | .error _ => []
      | .ok none => go s rest
      | .ok (some tm) =>
        match finishTM cfg tm with
        | .error _ => allAssertErrs cfg tm
        | .ok s' => go s' rest
  match newSchemaTM cfg [] with
  | .error _ => []
  | .ok tm =>
    match finishTM cfg tm with
    | .error _ => allAssertErrs cfg tm
    | .ok s => go s order

def outcome (cfg : Config) (order : List TRef) : Json :=
  let r := match newSchema cfg with
    | .error e => Except.error e
    | .ok s => appendAll cfg s order
  match r with
  | .error e => Json.mkObj [("ok", false), ("err", encErr e),
      ("assertErrs", Json.arr ((assertErrSet cfg order).map (fun e => Json.str (encErr e))).toArray)]
  | .ok s =>
    let d := dump cfg s
    Json.mkObj [("ok", true), ("dump", encDump d), ("consistent", d.Consistent), ("parts", encParts d),
      ("schema", encSchema d.toSchema)]

/-- the configuration is one the Go API can express: ids in range, interfaces are interfaces, members and roots are
objects, keys of every map unique -/
def distinct (l : List String) : Bool :=
  match l with
  | [] => true
  | x :: xs => !xs.contains x && distinct xs

def wellFormed (cfg : Config) : Bool :=
  let okId (k : Kind) (i : Nat) : Bool := i < cfg.size && kindOf cfg i == k
  let rec okRef : TRef → Bool
    | .ref i => i < cfg.size
    | .list t => okRef t
    | .nonNull t => okRef t
    | _ => true
  cfg.wellTyped && cfg.mapsOk &&
  (match cfg.query with | some q => okId .object q | none => true) &&
  (match cfg.mutation with | some q => okId .object q | none => true) &&
  (match cfg.subscription with | some q => okId .object q | none => true) &&
  cfg.extra.all okRef &&
  cfg.types.all (fun t =>
    distinct (t.fields.map (·.name)) && distinct (t.inputFields.map (·.name)) && distinct (t.values.map (·.1)) &&
    t.fields.all (fun f => okRef f.type && distinct (f.args.map (·.name)) && f.args.all (fun a => okRef a.type)) &&
    t.inputFields.all (fun a => okRef a.type) &&
    t.refs.all (fun r => match r with
      | none => true
      | some i => if t.kind == .object then okId .interface i else if t.kind == .union then okId .object i else true)) &&
  cfg.directives.all (fun d => match d with
    | some d => distinct (d.args.map (·.name)) && d.args.all (fun a => okRef a.type)
    | none => true)

/-! histories (lean/GqlModel/SchemaLive.lean): `"history": [STEP…]` with
STEP = {"op":"addField","target":id,"field":FIELD} | {"op":"addInputField","target":id,"field":ARG} |
       {"op":"newSchema"} | {"op":"append","type":TREF} -/

def decStep (j : Json) : Except String HStep := do
  match ← Driver.getStr j "op" with
  | "addField" => return .addField (← Driver.getNat j "target") (← decField (← j.getObjVal? "field")) (boolD j "front" false)
  | "addInputField" =>
    return .addInputField (← Driver.getNat j "target") (← decArg (← j.getObjVal? "field")) (boolD j "front" false)
  | "newSchema" => return .newSchema
  | "append" => return .append (← typeD j "type")
  | op => throw s!"bad history step {op}"

def encLive (st : Live) : List (String × Json) :=
  let d := st.dump
  [("ok", true), ("dump", encDump d), ("consistent", d.Consistent), ("parts", encParts d),
   ("parked", Json.arr (st.parkedErrs.map (fun p => Json.arr #[encNat p.1, Json.str (encErr p.2)])).toArray)]

def handleHistory (cfg : Config) (steps : List HStep) : Json :=
  let st0 : Live := { cfg := cfg }
  let hist := match runHistory st0 0 steps with
    | .error (k, e) => Json.mkObj [("ok", false), ("err", encErr e), ("failedAt", encNat k),
        ("assertErrs", Json.arr ((historyAssertErrs st0 steps).map (fun e => Json.str (encErr e))).toArray)]
    | .ok st => Json.mkObj (encLive st)
  let upSteps := steps.filter (fun st => match st with | .addField .. => true | .addInputField .. => true | _ => false)
  let upMore := steps.filterMap (fun st => match st with | .append t => some t | _ => none)
  let stUp := upSteps.foldl (fun s step => match step with
    | .addField i f fr => s.addField i f fr
    | .addInputField i f fr => s.addInputField i f fr
    | _ => s) st0
  let up := match upfront st0 steps with
    | .error e => Json.mkObj [("ok", false), ("err", encErr e),
        ("assertErrs", Json.arr ((match newSchemaTM stUp.cfg upMore with
          | .ok tm => stUp.finishErrs tm
          | .error _ => []).map (fun e => Json.str (encErr e))).toArray)]
    | .ok st => Json.mkObj (encLive st)
  Json.mkObj [("wf", wellFormed cfg), ("hist", hist), ("upfront", up),
    ("mutatesRegistered", mutatesRegistered st0 steps)]

def handle (j : Json) : Except String Json := do
  let cfg ← decConfig (← j.getObjVal? "config")
  match j.getObjVal? "history" with
  | .ok (.arr steps) => do
    let hs ← steps.toList.mapM decStep
    let real ← match Driver.getOpt j "real" with
      | none => pure Json.null
      | some r => do
        let d ← decDump r
        pure (Json.mkObj [("consistent", d.Consistent), ("parts", encParts d)])
    return (handleHistory cfg hs).setObjVal! "real" real
  | _ =>
  let order ← (arrD j "appendOrder").mapM decTRef
  let real ← match Driver.getOpt j "real" with
    | none => pure Json.null
    | some r => do
      let d ← decDump r
      pure (Json.mkObj [("consistent", d.Consistent), ("parts", encParts d)])
  return Json.mkObj [("wf", wellFormed cfg), ("outcome", outcome cfg order), ("real", real)]

end Driver.C11

def main : IO Unit := Driver.run (Driver.wrap Driver.C11.handle)
