import Driver.Common
import GqlModel.Lexer
import GqlModel.LexerSpec
import GqlModel.LexerQuote
/-! Driver for the lexer half of C03.
`{"src": base64}` → `{"M": R, "S": R, "kf": [class…]}` with
`R = {"tokens": [[kind, start, stop, value_base64]…], "err": [pos, errKind] | null}`.
M = bug-faithful model of lexer.go iterated like the parser does, S = the spec's tokeniser. -/
open Lean GqlModel GqlModel.Lexer

namespace Driver.C03Lex

def b64chars : Array Char :=
  "ABCDEFGHIJKLMNOPQRSTUVWXYZabcdefghijklmnopqrstuvwxyz0123456789+/".toList.toArray

def b64enc (bs : List UInt8) : String :=
  let rec go (l : List UInt8) (acc : List Char) : List Char :=
    match l with
    | [] => acc.reverse
    | [a] =>
      let n := a.toNat * 65536
      (('=' :: '=' :: b64chars[(n / 4096) % 64]! :: b64chars[(n / 262144) % 64]! :: acc)).reverse
    | [a, b] =>
      let n := a.toNat * 65536 + b.toNat * 256
      (('=' :: b64chars[(n / 64) % 64]! :: b64chars[(n / 4096) % 64]! :: b64chars[(n / 262144) % 64]! :: acc)).reverse
    | a :: b :: c :: r =>
      let n := a.toNat * 65536 + b.toNat * 256 + c.toNat
      go r (b64chars[n % 64]! :: b64chars[(n / 64) % 64]! :: b64chars[(n / 4096) % 64]! :: b64chars[(n / 262144) % 64]! :: acc)
  String.ofList (go bs [])

def b64val (c : Char) : Option Nat :=
  if 'A' ≤ c ∧ c ≤ 'Z' then some (c.toNat - 65)
  else if 'a' ≤ c ∧ c ≤ 'z' then some (c.toNat - 97 + 26)
  else if '0' ≤ c ∧ c ≤ '9' then some (c.toNat - 48 + 52)
  else if c = '+' then some 62
  else if c = '/' then some 63
  else none

def b64dec (s : String) : Except String (List UInt8) := do
  let cs := s.toList.filter (· ≠ '=')
  let rec go (l : List Char) (acc : List UInt8) : Except String (List UInt8) :=
    match l with
    | [] => pure acc.reverse
    | [_] => throw "bad base64 length"
    | [a, b] => do
      let some x := b64val a | throw "bad base64 char"
      let some y := b64val b | throw "bad base64 char"
      let n := x * 262144 + y * 4096
      pure ((UInt8.ofNat (n / 65536)) :: acc).reverse
    | [a, b, c] => do
      let some x := b64val a | throw "bad base64 char"
      let some y := b64val b | throw "bad base64 char"
      let some z := b64val c | throw "bad base64 char"
      let n := x * 262144 + y * 4096 + z * 64
      pure (UInt8.ofNat (n / 256 % 256) :: UInt8.ofNat (n / 65536) :: acc).reverse
    | a :: b :: c :: d :: r => do
      let some x := b64val a | throw "bad base64 char"
      let some y := b64val b | throw "bad base64 char"
      let some z := b64val c | throw "bad base64 char"
      let some w := b64val d | throw "bad base64 char"
      let n := x * 262144 + y * 4096 + z * 64 + w
      go r (UInt8.ofNat (n % 256) :: UInt8.ofNat (n / 256 % 256) :: UInt8.ofNat (n / 65536) :: acc)
  go cs []

def errKindNat : ErrKind → Nat
  | .invalidChar => 0 | .unexpectedChar => 1 | .digitAfterZero => 2 | .expectedDigit => 3
  | .invalidCharInString => 4 | .badEscape => 5 | .badUnicodeEscape => 6 | .unterminated => 7 | .fuel => 99

def encTok (t : LTok) : Json :=
  Json.arr #[Json.num t.kind.toNat, Json.num t.start, Json.num t.stop, Json.str (b64enc t.value)]

def encRes (r : LexResult) : Json :=
  Json.mkObj [("tokens", Json.arr (r.tokens.map encTok).toArray),
    ("err", match r.err with
      | none => Json.null
      | some e => Json.arr #[Json.num e.pos, Json.num (errKindNat e.kind)])]

def handle (j : Json) : Except String Json := do
  -- `{"quote": base64}` → `{"q": base64}` : the model of printer.go's quoteString (tied to the real printer by the harness)
  if let some q := Driver.getOpt j "quote" then
    let s ← b64dec (← q.getStr?)
    return Json.mkObj [("q", Json.str (b64enc (Lexer.quoteString s)))]
  let src ← b64dec (← Driver.getStr j "src")
  let m := Lexer.lexAll src
  let s := Spec.lexAll src
  let kf := (if Spec.nameAfterMultibyteIgnored src then [Json.str "nameAfterMultibyteIgnored"] else [])
    ++ (if Spec.errorAfterMultibyte src then [Json.str "errorAfterMultibyte"] else [])
  return Json.mkObj [("M", encRes m), ("S", encRes s), ("kf", Json.arr kf.toArray), ("MeqS", decide (m = s))]

end Driver.C03Lex

def main : IO Unit := Driver.run (Driver.wrap Driver.C03Lex.handle)
