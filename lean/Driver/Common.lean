import Lean.Data.Json
/-! Shared I/O loop of the model drivers: one JSON object per line in, one per line out.
The only `partial def` of the project lives here (reading stdin until EOF). -/
open Lean

namespace Driver

partial def loop (inp out : IO.FS.Stream) (f : Json → Json) : IO Unit := do
  let line ← inp.getLine
  if line.isEmpty then return ()
  let resp := match Json.parse line with
    | .ok j => f j
    | .error e => Json.mkObj [("error", Json.str s!"bad json: {e}")]
  out.putStrLn resp.compress
  out.flush
  loop inp out f

def run (f : Json → Json) : IO Unit := do
  loop (← IO.getStdin) (← IO.getStdout) f

/-- helpers for decoding; a missing or ill-typed key is reported, never defaulted -/
def getNat (j : Json) (k : String) : Except String Nat := do
  let v ← j.getObjVal? k
  v.getNat?
def getInt (j : Json) (k : String) : Except String Int := do
  let v ← j.getObjVal? k
  v.getInt?
def getStr (j : Json) (k : String) : Except String String := do
  let v ← j.getObjVal? k
  v.getStr?
def getBool (j : Json) (k : String) : Except String Bool := do
  let v ← j.getObjVal? k
  v.getBool?
def getArr (j : Json) (k : String) : Except String (Array Json) := do
  let v ← j.getObjVal? k
  v.getArr?
def getOpt (j : Json) (k : String) : Option Json :=
  match j.getObjVal? k with
  | .ok .null => none
  | .ok v => some v
  | .error _ => none

def errJson (e : String) : Json := Json.mkObj [("error", Json.str e)]

def wrap (f : Json → Except String Json) (j : Json) : Json :=
  match f j with
  | .ok r => r
  | .error e => errJson e

end Driver
