import Driver.Common
import GqlModel.Visitor
/-! Driver for C14: `{"tree":<node>,"policy":[[id,phase,act],…]}` → events of the machine (M) and of the
reference walk (S). node = {"id":n,"slots":[{"k":key,"one":node}|{"k":key,"many":[node…]}|{"k":key}]} -/
open Lean GqlModel.Visitor

namespace Driver.C14

partial def decNode (j : Json) : Except String Node := do
  let id ← Driver.getNat j "id"
  let slots ← Driver.getArr j "slots"
  let ss ← slots.toList.mapM decSlot
  return .mk id ss
where
  decSlot (s : Json) : Except String Slot := do
    let k ← Driver.getStr s "k"
    match Driver.getOpt s "one" with
    | some n => return .one k (← decNode n)
    | none =>
      match Driver.getOpt s "many" with
      | some arr =>
        let ns ← (← arr.getArr?).toList.mapM decNode
        match ns with
        | [] => return .absent k
        | n :: rest => return .many k n rest
      | none => return .absent k

def decPolicy (j : Json) : Except String Policy := do
  let arr ← Driver.getArr j "policy"
  let triples ← arr.toList.mapM (fun t => do
    let a ← t.getArr?
    match a.toList with
    | [i, p, c] => do
      let i ← i.getNat?
      let p ← p.getNat?
      let c ← c.getNat?
      pure (i, p, c)
    | _ => throw "policy entry must be [id,phase,act]")
  return fun id ph =>
    let p := match ph with | .enter => 0 | .leave => 1
    match triples.find? (fun (i, q, _) => i == id && q == p) with
    | some (_, _, 1) => .skip
    | some (_, _, 2) => .brk
    | _ => .cont

def encKey : Key → Json
  | .name s => Json.str s
  | .idx i => Json.num i
def encOptNat : Option Nat → Json
  | none => Json.null
  | some n => Json.num n
def encEv (e : Ev) : Json :=
  Json.arr #[Json.num (match e.phase with | .enter => 0 | .leave => 1), Json.num e.id,
    (match e.ctx.key with | none => Json.null | some k => encKey k),
    encOptNat e.ctx.parent,
    Json.arr (e.ctx.path.map encKey).toArray,
    Json.arr (e.ctx.anc.map encOptNat).toArray]

def handle (j : Json) : Except String Json := do
  let tree ← decNode (← j.getObjVal? "tree")
  let pol ← decPolicy j
  let (mev, mfin) := machineEvents pol tree (fuelFor tree)
  let (sev, sbrk) := refEvents pol tree
  let fin := match mfin with | .done => "done" | .broken => "broken" | .run _ => "running"
  return Json.mkObj [("M", Json.arr (mev.map encEv).toArray), ("Mfin", fin),
    ("S", Json.arr (sev.map encEv).toArray), ("Sbrk", sbrk), ("MeqS", decide (mev = sev))]

end Driver.C14

def main : IO Unit := Driver.run (Driver.wrap Driver.C14.handle)
