import Driver.Common
import GqlModel.Ast
/-! Decoder for the AST JSON produced by harness/astjson (Go AST → JSON → `GqlModel.Ast`). -/
open Lean (Json)
open GqlModel

namespace Driver.AstJson

def decLoc (j : Json) : Except String Loc := do
  match j with
  | .arr #[a, b] => return ⟨← a.getNat?, ← b.getNat?⟩
  | _ => throw s!"bad loc {j.compress}"

def locOf (j : Json) : Except String Loc := do decLoc (← j.getObjVal? "l")

def decName (j : Json) : Except String Name := do
  return ⟨← Driver.getStr j "v", ← locOf j⟩

def decNameOpt (j : Json) (k : String) : Except String (Option Name) :=
  match Driver.getOpt j k with
  | none => pure none
  | some n => do return some (← decName n)

def reqName (j : Json) (k : String) : Except String Name := do
  match ← decNameOpt j k with
  | some n => pure n
  | none => throw s!"missing name {k} in {j.compress}"

partial def decType (j : Json) : Except String TypeRef := do
  let k ← Driver.getStr j "k"
  let l ← locOf j
  match k with
  | "Named" => return .named (← Driver.getStr j "n") l
  | "List" => return .list (← decType (← j.getObjVal? "t")) l
  | "NonNull" => return .nonNull (← decType (← j.getObjVal? "t")) l
  | _ => throw s!"bad type kind {k}"

def decTypeOpt (j : Json) (k : String) : Except String (Option TypeRef) :=
  match Driver.getOpt j k with
  | none => pure none
  | some t => do return some (← decType t)

partial def decValue (j : Json) : Except String Value := do
  let k ← Driver.getStr j "k"
  let l ← locOf j
  match k with
  | "Variable" => return .var (← Driver.getStr j "n") l
  | "IntValue" => return .int (← Driver.getStr j "v") l
  | "FloatValue" => return .float (← Driver.getStr j "v") l
  | "StringValue" => return .str (← Driver.getStr j "v") l
  | "BooleanValue" => return .bool (← Driver.getBool j "v") l
  | "EnumValue" => return .enum (← Driver.getStr j "v") l
  | "ListValue" =>
    let vs ← (← Driver.getArr j "vs").toList.mapM decValue
    return .list vs l
  | "ObjectValue" =>
    let fs ← (← Driver.getArr j "fs").toList.mapM (fun f => do
      return ObjField.mk (← reqName f "n") (← decValue (← f.getObjVal? "v")) (← locOf f))
    return .obj fs l
  | _ => throw s!"bad value kind {k}"

def decValueOpt (j : Json) (k : String) : Except String (Option Value) :=
  match Driver.getOpt j k with
  | none => pure none
  | some v => do return some (← decValue v)

def decArgs (j : Json) (k : String) : Except String (List Argument) := do
  (← Driver.getArr j k).toList.mapM (fun a => do
    return { name := ← reqName a "n", value := ← decValue (← a.getObjVal? "v"), loc := ← locOf a })

def decDirs (j : Json) : Except String (List Directive) := do
  (← Driver.getArr j "dirs").toList.mapM (fun d => do
    return { name := ← reqName d "n", args := ← decArgs d "args", loc := ← locOf d })

partial def decSelSet (j : Json) : Except String SelectionSet := do
  let sels ← (← Driver.getArr j "sels").toList.mapM decSel
  return .mk sels (← locOf j)
where
  decSel (s : Json) : Except String Selection := do
    let k ← Driver.getStr s "k"
    let l ← locOf s
    match k with
    | "Field" =>
      let sub ← match Driver.getOpt s "sel" with
        | none => pure none
        | some ss => do pure (some (← decSelSet ss))
      return .field (← decNameOpt s "alias") (← reqName s "n") (← decArgs s "args") (← decDirs s) sub l
    | "FragmentSpread" => return .spread (← reqName s "n") (← decDirs s) l
    | "InlineFragment" =>
      return .inline (← decTypeOpt s "tc") (← decDirs s) (← decSelSet (← s.getObjVal? "sel")) l
    | _ => throw s!"bad selection kind {k}"

def decOp (s : String) : Except String OpType :=
  match s with
  | "query" => pure .query
  | "mutation" => pure .mutation
  | "subscription" => pure .subscription
  | _ => throw s!"bad operation {s}"

def decDesc (j : Json) : Option String :=
  match Driver.getOpt j "desc" with
  | some (.str s) => some s
  | _ => none

def decInputValueDefs (j : Json) (k : String) : Except String (List InputValueDef) := do
  (← Driver.getArr j k).toList.mapM (fun d => do
    return { description := decDesc d, name := ← reqName d "n", type := ← decType (← d.getObjVal? "t"),
             default := ← decValueOpt d "d", dirs := ← decDirs d, loc := ← locOf d })

def decFieldDefs (j : Json) : Except String (List FieldDef) := do
  (← Driver.getArr j "fields").toList.mapM (fun d => do
    return { description := decDesc d, name := ← reqName d "n", args := ← decInputValueDefs d "args",
             type := ← decType (← d.getObjVal? "t"), dirs := ← decDirs d, loc := ← locOf d })

def decObjectDef (j : Json) : Except String ObjectDef := do
  return { description := decDesc j, name := ← reqName j "n",
           interfaces := ← (← Driver.getArr j "ifaces").toList.mapM decType,
           dirs := ← decDirs j, fields := ← decFieldDefs j, loc := ← locOf j }

def decDefinition (j : Json) : Except String Definition := do
  let k ← Driver.getStr j "k"
  let l ← locOf j
  match k with
  | "OperationDefinition" =>
    let vars ← (← Driver.getArr j "vars").toList.mapM (fun v => do
      let vl ← match Driver.getOpt v "vl" with
        | some x => decLoc x
        | none => pure Loc.none
      let n ← match ← decNameOpt v "n" with
        | some n => pure n
        | none => pure ⟨"", Loc.none⟩
      return ({ var := n, varLoc := vl, type := ← decTypeOpt v "t", default := ← decValueOpt v "d", loc := ← locOf v } : VarDef))
    return .operation (← decOp (← Driver.getStr j "op")) (← decNameOpt j "n") vars (← decDirs j)
      (← decSelSet (← j.getObjVal? "sel")) l
  | "FragmentDefinition" =>
    return .fragment (← reqName j "n") (← decType (← j.getObjVal? "tc")) (← decDirs j) (← decSelSet (← j.getObjVal? "sel")) l
  | "SchemaDefinition" =>
    let ops ← (← Driver.getArr j "ops").toList.mapM (fun o => do
      return ({ operation := ← decOp (← Driver.getStr o "op"), type := ← decType (← o.getObjVal? "t"), loc := ← locOf o } : OpTypeDef))
    return .schema (← decDirs j) ops l
  | "ScalarDefinition" => return .scalar (decDesc j) (← reqName j "n") (← decDirs j) l
  | "ObjectDefinition" => return .object (← decObjectDef j)
  | "InterfaceDefinition" => return .interface (decDesc j) (← reqName j "n") (← decDirs j) (← decFieldDefs j) l
  | "UnionDefinition" =>
    return .union (decDesc j) (← reqName j "n") (← decDirs j) (← (← Driver.getArr j "types").toList.mapM decType) l
  | "EnumDefinition" =>
    let vals ← (← Driver.getArr j "values").toList.mapM (fun v => do
      return ({ description := decDesc v, name := ← reqName v "n", dirs := ← decDirs v, loc := ← locOf v } : EnumValueDef))
    return .enum (decDesc j) (← reqName j "n") (← decDirs j) vals l
  | "InputObjectDefinition" =>
    return .inputObject (decDesc j) (← reqName j "n") (← decDirs j) (← decInputValueDefs j "fields") l
  | "TypeExtensionDefinition" => return .extend (← decObjectDef (← j.getObjVal? "def")) l
  | "DirectiveDefinition" =>
    return .directive (decDesc j) (← reqName j "n") (← decInputValueDefs j "args")
      (← (← Driver.getArr j "locs").toList.mapM decName) l
  | _ => throw s!"bad definition kind {k}"

def decDocument (j : Json) : Except String Document := do
  let defs ← (← Driver.getArr j "defs").toList.mapM decDefinition
  return ⟨defs, ← locOf j⟩

end Driver.AstJson
