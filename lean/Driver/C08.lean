import Driver.Common
import Driver.AstJson
import GqlModel.Printer
import GqlModel.PrinterTokens
import GqlModel.ValueReader
import GqlModel.PrinterBlock
/-! Driver for C08: `{"ast": <astjson document>}` → `{"text": base64 (UTF-8 bytes of M.print), "unsafe": [descriptions with ¬descBlockSafe]}`.
`"tokens"`: `printTokens` as `[kind number, value]` pairs.  `{"value": <astjson value>}` → `{"text": base64 (M.printValue)}`.
`{"readValue": text}` / `{"readType": text}` → verdict of the reference reader (`GqlModel/ValueReader.lean`). -/
open Lean GqlModel

namespace Driver.C08

def b64chars : Array Char :=
  "ABCDEFGHIJKLMNOPQRSTUVWXYZabcdefghijklmnopqrstuvwxyz0123456789+/".toList.toArray

def b64 (bs : ByteArray) : String := Id.run do
  let mut out : String := ""
  let n := bs.size
  let mut i := 0
  while i < n do
    let b0 := bs[i]!.toNat
    let b1 := if i + 1 < n then bs[i+1]!.toNat else 0
    let b2 := if i + 2 < n then bs[i+2]!.toNat else 0
    let w := b0 * 65536 + b1 * 256 + b2
    out := out.push (b64chars[(w / 262144) % 64]!)
    out := out.push (b64chars[(w / 4096) % 64]!)
    out := out.push (if i + 1 < n then b64chars[(w / 64) % 64]! else '=')
    out := out.push (if i + 2 < n then b64chars[w % 64]! else '=')
    i := i + 3
  return out

def encTokens (ts : List (TokenKind × String)) : Json :=
  Json.arr (ts.map (fun (k, v) => Json.arr #[Json.num k.toNat, Json.str v])).toArray

/-- a value without locations, in the astjson vocabulary (harness/astjson) minus the `"l"` members -/
partial def encValue : Value → Json
  | .var n _ => Json.mkObj [("k", "Variable"), ("n", Json.str n)]
  | .int r _ => Json.mkObj [("k", "IntValue"), ("v", Json.str r)]
  | .float r _ => Json.mkObj [("k", "FloatValue"), ("v", Json.str r)]
  | .str s _ => Json.mkObj [("k", "StringValue"), ("v", Json.str s)]
  | .bool b _ => Json.mkObj [("k", "BooleanValue"), ("v", Json.bool b)]
  | .enum v _ => Json.mkObj [("k", "EnumValue"), ("v", Json.str v)]
  | .list vs _ => Json.mkObj [("k", "ListValue"), ("vs", Json.arr (vs.map encValue).toArray)]
  | .obj fs _ => Json.mkObj [("k", "ObjectValue"), ("fs", Json.arr (fs.map (fun f =>
      Json.mkObj [("n", Json.mkObj [("v", Json.str f.name.value)]), ("v", encValue f.value)])).toArray)]

partial def encType : TypeRef → Json
  | .named n _ => Json.mkObj [("k", "Named"), ("n", Json.str n)]
  | .list t _ => Json.mkObj [("k", "List"), ("t", encType t)]
  | .nonNull t _ => Json.mkObj [("k", "NonNull"), ("t", encType t)]

/-- `{"readValue": text}` → the reference reader's verdict on a value literal; `{"readType": text}` likewise -/
def handleRead (j : Json) : Except String (Option Json) := do
  match Driver.getOpt j "readValue" with
  | some (.str t) =>
    match Reader.readValueTop t.toList with
    | some (v, rest) =>
      return some (Json.mkObj [("ok", true), ("value", encValue v), ("rest", Json.str (String.ofList rest)),
        ("reprint", Json.str (Printer.printValue v))])
    | none => return some (Json.mkObj [("ok", false)])
  | _ =>
    match Driver.getOpt j "readType" with
    | some (.str t) =>
      match Reader.readTypeTop t.toList with
      | some (ty, rest) =>
        return some (Json.mkObj [("ok", true), ("type", encType ty), ("rest", Json.str (String.ofList rest)),
          ("reprint", Json.str (Printer.printType ty))])
      | none => return some (Json.mkObj [("ok", false)])
    | _ => return none

/-- the byte-level description model of the block-string theorems (`GqlModel/PrinterBlock.lean`) agrees with the
character-level printer model on a description: same block-safety verdict, and for block-safe descriptions the same
text at nesting depths 0, 1 and 2 -/
def blockModelConsistent (s : String) : Bool :=
  let bytes := s.toUTF8.toList
  let safe := Printer.descBlockSafeC s.toList
  (Printer.Block.blockSafeB bytes == safe) &&
  (!safe ||
    [0, 1, 2].all (fun n =>
      let txt := (List.range n).foldl (fun t _ => Printer.indentC t) (Printer.descC (some s))
      (String.ofList txt).toUTF8.toList == Printer.Block.blockText (2 * n) bytes))

def handle (j : Json) : Except String Json := do
  if let some r ← handleRead j then return r
  match Driver.getOpt j "ast" with
  | some a =>
    let doc ← Driver.AstJson.decDocument a
    let bad := (Printer.documentDescs doc).filter (fun s => !Printer.descBlockSafe s)
    return Json.mkObj [("text", Json.str (b64 (Printer.print doc).toUTF8)),
                       ("unsafe", Json.arr (bad.map Json.str).toArray),
                       ("tokens", encTokens (Printer.printTokens doc)),
                       ("block_model_ok", Json.bool ((Printer.documentDescs doc).all blockModelConsistent))]
  | none =>
    match Driver.getOpt j "value" with
    | some v =>
      let v ← Driver.AstJson.decValue v
      return Json.mkObj [("text", Json.str (b64 (Printer.printValue v).toUTF8))]
    | none => throw "expected ast or value"

end Driver.C08

def main : IO Unit := Driver.run (Driver.wrap Driver.C08.handle)
