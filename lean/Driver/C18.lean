import Driver.Common
import GqlModel.Location
/-! Driver for C18.
`{"body": <base64>, "pos": n}`            → `{"M":[line,col],"S":[line,col]}`
`{"body": <base64>, "positions":[n,…]}`   → `{"M":[[line,col],…],"S":[[line,col],…]}`
`{"path":[["k","name"]|["i",3],…]}`       → `{"asArray":[…]}` (WithKey folded from the nil path, then AsArray)
M = `getLocation` (loop of location.GetLocation), S = `spec`. -/
open Lean GqlModel.Location

namespace Driver.C18

def b64val (c : Char) : Option Nat :=
  if 'A' ≤ c ∧ c ≤ 'Z' then some (c.toNat - 'A'.toNat)
  else if 'a' ≤ c ∧ c ≤ 'z' then some (c.toNat - 'a'.toNat + 26)
  else if '0' ≤ c ∧ c ≤ '9' then some (c.toNat - '0'.toNat + 52)
  else if c = '+' then some 62
  else if c = '/' then some 63
  else none

/-- standard base64 with padding; state = (bit accumulator, number of bits, output reversed) -/
def b64decode (s : String) : Except String (List UInt8) := do
  let step (st : Nat × Nat × List UInt8) (c : Char) : Except String (Nat × Nat × List UInt8) :=
    if c = '=' then pure st else
    match b64val c with
    | none => throw s!"bad base64 character {c}"
    | some v =>
      let (acc, n, out) := st
      let acc := acc * 64 + v
      let n := n + 6
      if n ≥ 8 then
        let byte := acc / (2 ^ (n - 8))
        pure (acc % (2 ^ (n - 8)), n - 8, UInt8.ofNat byte :: out)
      else pure (acc, n, out)
  let (_, _, out) ← s.toList.foldlM step (0, 0, [])
  return out.reverse

def encLoc (p : Nat × Nat) : Json := Json.arr #[Json.num p.1, Json.num p.2]

def decKey (j : Json) : Except String Key := do
  let a ← j.getArr?
  match a.toList with
  | [t, v] =>
    let t ← t.getStr?
    if t == "k" then return .name (← v.getStr?)
    else if t == "i" then return .idx (← v.getNat?)
    else throw "key tag must be k or i"
  | _ => throw "key must be [tag, value]"

def encKey : Key → Json
  | .name s => Json.str s
  | .idx i => Json.num i

def handle (j : Json) : Except String Json := do
  match Driver.getOpt j "path" with
  | some p =>
    let ks ← (← p.getArr?).toList.mapM decKey
    let path := ks.foldl RPath.withKey .nil
    return Json.mkObj [("asArray", Json.arr (path.asArray.map encKey).toArray)]
  | none =>
    let body ← b64decode (← Driver.getStr j "body")
    match Driver.getOpt j "positions" with
    | some ps =>
      let ps ← (← ps.getArr?).toList.mapM (·.getNat?)
      return Json.mkObj [("M", Json.arr (ps.map (fun p => encLoc (getLocation body p))).toArray),
                         ("S", Json.arr (ps.map (fun p => encLoc (spec body p))).toArray)]
    | none =>
      let pos ← Driver.getNat j "pos"
      return Json.mkObj [("M", encLoc (getLocation body pos)), ("S", encLoc (spec body pos))]

end Driver.C18

def main : IO Unit := Driver.run (Driver.wrap Driver.C18.handle)
