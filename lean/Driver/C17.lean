import Driver.Common
import GqlModel.Ext
/-! Driver for C17.
in : {"exts":[{"name":n,"beh":[11 × 0|1|2|3],"hasRes":b}…], "req":{"class":"syntax|validation|operation|variable|exec","fields":[0..4…]},
      "log":[[ext,hook,fld,out,fault]…], "errors":[[1,name,hook,kind]|[0,0,0,0]…],            (log/errors = the REAL run)
      optional: "entry":"do"|"plan" (graphql.Do, or ExecutePlan called directly), "ctx": -1 | j (context done before the
      call | while the resolver of executed field j runs; class exec only), "late":[…] (what is logged after Do returned)}
out: {"M":{"log":…,"errors":…,"keys":[…],"hasData":b}, "specM":{…}, "specG":{…}, "sharedName":b}
Encodings: beh 0 ok, 1 panic(error), 2 panic(string), 3 panic(other); hook = constructor index (resolver = 11);
out 0 none, 1 ok, 2 err; field outcome 0 ok, 1 err, 2 panic, 3 errNN, 4 panicNN. -/
open Lean GqlModel.Ext

namespace Driver.C17

def decBeh : Nat → Except String Beh
  | 0 => pure .ok | 1 => pure (.panic .err) | 2 => pure (.panic .str) | 3 => pure (.panic .other)
  | n => throw s!"bad behaviour {n}"
def encBeh : Beh → Nat
  | .ok => 0 | .panic .err => 1 | .panic .str => 2 | .panic .other => 3
def encKind : PanicKind → Nat
  | .err => 1 | .str => 2 | .other => 3
def decKind : Nat → Except String PanicKind
  | 1 => pure .err | 2 => pure .str | 3 => pure .other | n => throw s!"bad kind {n}"

def hooks : List Hook :=
  [.init, .parseStart, .parseEnd, .valStart, .valEnd, .execStart, .execEnd, .resStart, .resEnd, .hasResult, .getResult, .resolver]
def encHook (h : Hook) : Nat := hooks.idxOf h
def decHook (n : Nat) : Except String Hook :=
  match hooks[n]? with
  | some h => pure h
  | none => throw s!"bad hook {n}"
def encOut : Out → Nat
  | .none => 0 | .ok => 1 | .err => 2
def decOut : Nat → Except String Out
  | 0 => pure .none | 1 => pure .ok | 2 => pure .err | n => throw s!"bad out {n}"
def decFO : Nat → Except String FieldOutcome
  | 0 => pure .ok | 1 => pure .err | 2 => pure .panic | 3 => pure .errNN | 4 => pure .panicNN
  | n => throw s!"bad field outcome {n}"

def natList (j : Json) : Except String (List Nat) := do
  let a ← j.getArr?
  a.toList.mapM (·.getNat?)

def decExt (j : Json) : Except String ExtBehaviour := do
  let name ← Driver.getNat j "name"
  let hasRes ← Driver.getBool j "hasRes"
  let bs ← natList (← j.getObjVal? "beh")
  if bs.length != 11 then throw "beh must have 11 entries"
  let bs ← bs.mapM decBeh
  return { name := name, hasRes := hasRes, beh := fun h => bs.getD (encHook h) .ok }

def decReq (j : Json) : Except String RequestOutcomeClass := do
  let c ← Driver.getStr j "class"
  match c with
  | "syntax" => pure .syntaxErr
  | "validation" => pure .validationErr
  | "operation" => pure .operationErr
  | "variable" => pure .variableErr
  | "exec" => do
    let fs ← natList (← j.getObjVal? "fields")
    return .exec (← fs.mapM decFO)
  | _ => throw s!"bad request class {c}"

def decEv (j : Json) : Except String Ev := do
  match ← natList j with
  | [e, h, f, o, b] => return ⟨e, ← decHook h, f, ← decOut o, ← decBeh b⟩
  | _ => throw "event must be [ext,hook,fld,out,fault]"
def encEv (e : Ev) : Json :=
  Json.arr #[Json.num e.ext, Json.num (encHook e.hook), Json.num e.fld, Json.num (encOut e.out), Json.num (encBeh e.fault)]

def decErr (j : Json) : Except String ErrClass := do
  match ← natList j with
  | [0, _, _, _] => return .request
  | [1, n, h, k] => return .hook n (← decHook h) (← decKind k)
  | _ => throw "error class must be [0,0,0,0] or [1,name,hook,kind]"
def encErr : ErrClass → Json
  | .request => Json.arr #[Json.num 0, Json.num 0, Json.num 0, Json.num 0]
  | .hook n h k => Json.arr #[Json.num 1, Json.num n, Json.num (encHook h), Json.num (encKind k)]

def specJson (req : RequestOutcomeClass) (ns : List Nat) (t : Trace) (r : ResultSummary) : Json :=
  Json.mkObj [
    ("order", decide (PhaseOrder ns t)),
    ("balanced", decide (Balanced req ns t)),
    ("nested", decide (Nested ns t)),
    ("reported", reported t r),
    ("isolated", decide (PanicsReported req ns t r))]

/-- context done: top-level phases in the log at return, resolve phases in the complete log -/
def specCtxJson (fields : List FieldOutcome) (ns : List Nat) (now late : Trace) (r : ResultSummary) : Json :=
  let tl := topLevel now
  Json.mkObj [
    ("order", decide (PhaseOrder ns tl)),
    ("balanced", decide (Balanced ctxReq ns tl) && ns.all (fun a => resolvePhasesFor (.exec fields) a (now ++ late))),
    ("nested", decide (Nested ns tl)),
    ("reported", reported tl r),
    ("isolated", decide (PanicsReported ctxReq ns tl r))]

/-- the hooks `Do` calls before `ExecutePlan`, all succeeding: prefix used to evaluate the predicates on a log of
`ExecutePlan` called directly -/
def okTop (b : ExtBehaviour) : ExtBehaviour :=
  { b with beh := fun h => match h with
      | .init | .parseStart | .parseEnd | .valStart | .valEnd => .ok
      | h => b.beh h }

def doPrefix (xs : List ExtBehaviour) (req : RequestOutcomeClass) : Trace :=
  let ys := xs.map okTop
  let full := (GqlModel.Ext.run ys req).1
  full.take (full.length - (executePlan ys req).1.length)

def encTrace (t : Trace) : Json := Json.arr (t.map encEv).toArray

def handle (j : Json) : Except String Json := do
  let xs ← (← Driver.getArr j "exts").toList.mapM decExt
  let req ← decReq (← j.getObjVal? "req")
  let glog ← (← Driver.getArr j "log").toList.mapM decEv
  let glate ← match Driver.getOpt j "late" with
    | some l => (← l.getArr?).toList.mapM decEv
    | none => pure []
  let gerrs ← (← Driver.getArr j "errors").toList.mapM decErr
  let entryPlan := match Driver.getOpt j "entry" with
    | some (Json.str "plan") => true
    | _ => false
  let ctx : Option CtxAt := match Driver.getOpt j "ctx" with
    | some v => match v.getInt? with
      | .ok (-1) => some .before
      | .ok n => if n ≥ 0 then some (.inResolver n.toNat) else none
      | .error _ => none
    | none => none
  let ns := names xs
  let gr : ResultSummary := ⟨gerrs, [], false⟩
  -- model
  let (mt, mr, mlate) : Trace × ResultSummary × Trace := match ctx, req with
    | some c, .exec fs =>
      if entryPlan then ((executePlanCtx xs fs c).1, (executePlanCtx xs fs c).2, ctxLatePlan xs fs c)
      else ((runCtx xs fs c).1, (runCtx xs fs c).2, ctxLate xs fs c)
    | _, _ =>
      if entryPlan then ((executePlan xs req).1, (executePlan xs req).2, [])
      else ((GqlModel.Ext.run xs req).1, (GqlModel.Ext.run xs req).2, [])
  let pfx := if entryPlan then doPrefix xs req else []
  let (specM, specG) := match ctx, req with
    | some _, .exec fs => (specCtxJson fs ns (pfx ++ mt) mlate mr, specCtxJson fs ns (pfx ++ glog) glate gr)
    | _, _ => (specJson req ns (pfx ++ mt) mr, specJson req ns (pfx ++ glog) gr)
  return Json.mkObj [
    ("M", Json.mkObj [("log", encTrace mt), ("late", encTrace mlate), ("errors", Json.arr (mr.errors.map encErr).toArray),
                      ("keys", Json.arr (mr.extKeys.map (fun (n : Nat) => Json.num n)).toArray), ("hasData", mr.hasData)]),
    ("specM", specM),
    ("specG", specG),
    ("sharedName", sharedName ns)]

end Driver.C17

def main : IO Unit := Driver.run (Driver.wrap Driver.C17.handle)
