import Driver.Common
import Driver.AstJson
import Driver.SchemaJson
import GqlModel.Exec
import GqlModel.Conforms
import GqlModel.Plan
/-! Driver for the executor model (C01, C04, C13, C20):
`{"schema":…, "doc":<astjson>, "opName":"", "vars":{…}, "world":{…}}` →
`{"class":"requestError|result|fuelOut", "data":…|null, "errPaths":[…], "log":[…], "kfThunk":[…]}`.
Optional `"checkData": <wire JVal object>` (C04): the response additionally carries `"conforms": bool` = `conformsData`
(the `Conforms` checker of GqlModel/Conforms.lean) evaluated on THAT data against the request's root selection.
Optional `"planModel": true` (C01): the response is that of the IMPLEMENTATION model `GqlModel.Plan` (plan, lazily memoised
sub-plans, closures forced in the library's order) instead: same shape, plus `"events"` (resolver calls and thunk calls in order),
`"memoKeys"` (the memo after the first execution) and, with `"reuse": k`, `"misses"` (memo misses of each of k executions of the
ONE plan) and `"stable"` (all k executions gave the first one's response). -/
open Lean (Json)
open GqlModel GqlModel.Exec Driver.SchemaJson

namespace Driver.Exec

partial def decGoVal (j : Json) : Except String GoVal := do
  match j with
  | .null => return .nil
  | .bool b => return .bool b
  | .str s => return .str s
  | .num n =>
    if n.exponent == 0 then return .int n.mantissa else
    match ← decJVal j with
    | .int i => return .float i 0
    | .dec m e => return .float m e
    | _ => throw "bad number"
  | .arr xs => return .list (← xs.toList.mapM decGoVal)
  | .obj _ =>
    match j.getObjVal? "$ref" with
    | .ok r => return .ref (← r.getNat?)
    | .error _ =>
    match j.getObjVal? "$dec" with
    | .ok (.arr #[m, e]) => return .float (← m.getInt?) (← e.getNat?)
    | _ =>
    match j.getObjVal? "$float" with
    | .ok m => return .float (← m.getInt?) 0          -- an integral float64
    | .error _ =>
    match j.getObjVal? "$num" with
    | .ok (.arr #[_, n]) => return .int (← n.getInt?)   -- an integer of another width / behind a pointer: its value
    | _ =>
    match j.getObjVal? "$go" with
    | .ok (.str "typednil") => return .typedNil
    | .ok (.str "nan") => return .nan
    | .ok (.str "nan32") => return .nan
    | .ok (.str "inf") => return .inf false
    | .ok (.str "ninf") => return .inf true
    | .ok (.str "inf32") => return .inf false
    | .ok (.str "ninf32") => return .inf true
    | .ok (.str "badfunc") => return .badFunc
    | _ =>
    match j.getObjVal? "$thunk" with
    | .ok t =>
      match t.getObjVal? "v" with
      | .ok v => return .thunk (.ok (← decGoVal v))
      | .error _ => return .thunk .err
    | .error _ => throw s!"bad GoVal {j.compress}"

def decOutcome (j : Json) : Except String Outcome :=
  match j.getObjVal? "fail" with
  | .ok _ => pure .fail
  | .error _ => do return .value (← decGoVal (← j.getObjVal? "v"))

def decOutcomes (j : Json) : Except String (List (String × Outcome)) :=
  match j with
  | .obj kvs => kvs.toList.mapM (fun (k, v) => do return (k, ← decOutcome v))
  | _ => pure []

def decWorld (j : Json) : Except String World := do
  let objs ← (← Driver.getArr j "objects").toList.mapM (fun o => do
    return (← Driver.getNat o "id", ({ typeName := ← Driver.getStr o "type", fields := ← decOutcomes (← o.getObjVal? "fields") } : WObj)))
  let root ← decOutcomes ((j.getObjVal? "root").toOption.getD (Json.mkObj []))
  let ito ← match j.getObjVal? "isTypeOf" with
    | .ok (.arr xs) => xs.toList.mapM (fun x => do
        match x with
        | .arr #[t, i, b] => return (← t.getStr?, ← i.getNat?, ← b.getBool?)
        | _ => throw "bad isTypeOf entry")
    | _ => pure []
  let rt ← match j.getObjVal? "resolveType" with
    | .ok (.arr xs) => xs.toList.mapM (fun x => do
        match x with
        | .arr #[t, i, a] => return (← t.getStr?, ← i.getNat?, (match a with | .str s => some s | _ => none))
        | _ => throw "bad resolveType entry")
    | _ => pure []
  return { objects := objs, rootFields := root, isTypeOf := ito, resolveType := rt }

partial def encGoVal : GoVal → Json
  | .nil => Json.null
  | .typedNil => Json.mkObj [("$go", "typednil")]
  | .bool b => Json.bool b
  | .int i => Json.num (Lean.JsonNumber.fromInt i)
  | .float m e => if e == 0 then Json.mkObj [("$float", Json.num (Lean.JsonNumber.fromInt m))] else encJVal (.dec m e)
  | .nan => Json.mkObj [("$go", "nan")]
  | .inf neg => Json.mkObj [("$go", if neg then "ninf" else "inf")]
  | .str s => Json.str s
  | .list xs => Json.arr (xs.map encGoVal).toArray
  | .ref id => Json.mkObj [("$ref", Json.num (Lean.JsonNumber.fromNat id))]
  | .thunk _ => Json.mkObj [("$thunk", Json.null)]
  | .badFunc => Json.mkObj [("$go", "badfunc")]

def encPath (p : Path) : Json :=
  Json.arr (p.map (fun | .key k => Json.str k | .idx i => Json.num (Lean.JsonNumber.fromNat i))).toArray

def encLog (e : LogEntry) : Json :=
  Json.mkObj [("path", encPath e.path), ("parentType", e.parentType), ("field", e.fieldName),
    ("args", encJVal (.obj e.args)), ("source", encGoVal e.source), ("occurrences", Json.num (Lean.JsonNumber.fromNat e.occurrences)),
    ("deferred", Json.bool e.deferred)]

def decVars (j : Json) : Except String Coerce.Vars :=
  match j with
  | .obj kvs => kvs.toList.mapM (fun (k, v) => do return (k, ← decJVal v))
  | _ => pure []

def handle (j : Json) : Except String Json := do
  let s ← decSchema (← j.getObjVal? "schema")
  let doc ← Driver.AstJson.decDocument (← j.getObjVal? "doc")
  let opName := (Driver.getStr j "opName").toOption.getD ""
  let vars ← decVars ((j.getObjVal? "vars").toOption.getD (Json.mkObj []))
  let w ← decWorld (← j.getObjVal? "world")
  let extra : List (String × Json) ← match j.getObjVal? "checkData" with
    | .ok (.obj kvs) => do
      let fs ← kvs.toList.mapM (fun (k, v) => do return (k, ← decJVal v))
      pure [("conforms", Json.bool (conformsData s doc opName vars w fs))]
    | .ok .null => pure []
    | .ok _ => pure [("conforms", Json.bool false)]      -- data must be an object
    | .error _ => pure []
  match execute s doc opName vars w with
  | .requestError what => return Json.mkObj (([("class", "requestError"), ("what", what)] : List (String × Json)) ++ extra)
  | .fuelOut => return Json.mkObj (([("class", "fuelOut")] : List (String × Json)) ++ extra)
  | .result data errs log kf =>
    return Json.mkObj (([("class", "result"),
      ("data", match data with | some fs => encJVal (.obj fs) | none => Json.null),
      ("errPaths", Json.arr (errs.map (fun e => encPath e.1)).toArray),
      ("errDeferred", Json.arr (errs.map (fun e => Json.bool e.2)).toArray),
      ("log", Json.arr (log.map encLog).toArray),
      ("kfThunk", Json.arr (kf.map encPath).toArray)] : List (String × Json)) ++ extra)

/-! ## the implementation model (GqlModel/Plan.lean) -/

partial def encPVal : Plan.PVal → Json
  | .leaf j => encJVal j
  | .list xs => Json.arr (xs.map encPVal).toArray
  | .obj fs => Json.mkObj (fs.map (fun (k, v) => (k, encPVal v)))
  | .deferred _ => Json.mkObj [("$func", Json.bool true)]

def encEvent : Plan.Event → Json
  | .call e => Json.mkObj [("k", "call"), ("path", encPath e.path), ("parentType", e.parentType), ("field", e.fieldName)]
  | .force p => Json.mkObj [("k", "force"), ("path", encPath p)]

def encMemoKey (k : Plan.FpId × String) : Json :=
  Json.arr #[Json.arr (k.1.map (fun (t, r) => Json.arr #[Json.str t, Json.str r])).toArray, Json.str k.2]

def encMResponse (r : Plan.MResponse) : List (String × Json) :=
  match r with
  | .requestError what => [("class", "requestError"), ("what", what)]
  | .fuelOut => [("class", "fuelOut")]
  | .result data errs events =>
    [("class", "result"),
     ("data", match data with | some fs => encPVal (.obj fs) | none => Json.null),
     ("errPaths", Json.arr (errs.map (fun e => encPath e.1)).toArray),
     ("errDeferred", Json.arr (errs.map (fun e => Json.bool e.2)).toArray),
     ("events", Json.arr (events.map encEvent).toArray)]

/-- k executions of one plan, the memo threaded through: (misses per execution, all responses render like the first) -/
def reuseRuns (p : Plan.Plan) (vars : Coerce.Vars) (w : World) (first : String) : Nat → Plan.Memo → List Nat × Bool
  | 0, _ => ([], true)
  | k + 1, memo =>
    let (r, used) := Plan.executePlanCore p vars w memo defaultFuel
    let memo' := if p.dynamicDirectives then memo else used
    let (ms, ok) := reuseRuns p vars w first k memo'
    ((used.length - (if p.dynamicDirectives then 0 else memo.length)) :: ms, ok && (Json.mkObj (encMResponse r)).compress == first)

def handlePlanModel (j : Json) : Except String Json := do
  let s ← decSchema (← j.getObjVal? "schema")
  let doc ← Driver.AstJson.decDocument (← j.getObjVal? "doc")
  let opName := (Driver.getStr j "opName").toOption.getD ""
  let vars ← decVars ((j.getObjVal? "vars").toOption.getD (Json.mkObj []))
  let w ← decWorld (← j.getObjVal? "world")
  let reuse := (Driver.getNat j "reuse").toOption.getD 1
  match Plan.planQuery s doc opName with
  | .error e => return Json.mkObj [("class", "requestError"), ("what", reprStr e)]
  | .ok p =>
    let (r, memo) := Plan.executePlanCore p vars w [] defaultFuel
    let first := (Json.mkObj (encMResponse r)).compress
    let (misses, stable) := reuseRuns p vars w first (if reuse == 0 then 1 else reuse) []
    return Json.mkObj (encMResponse r ++ [("memoKeys", Json.arr (memo.map (fun e => encMemoKey e.1)).toArray),
      ("misses", Json.arr (misses.map (fun n => Json.num (Lean.JsonNumber.fromNat n))).toArray), ("stable", Json.bool stable),
      ("dynamic", Json.bool p.dynamicDirectives)])

def dispatch (j : Json) : Except String Json :=
  match j.getObjVal? "planModel" with
  | .ok (.bool true) => handlePlanModel j
  | _ => handle j

end Driver.Exec

def main : IO Unit := Driver.run (Driver.wrap Driver.Exec.dispatch)
