import Driver.Common
import Driver.AstJson
import Driver.SchemaJson
import GqlModel.Cost
import GqlModel.OverlapCost
import GqlModel.GraphCost
import GqlModel.PossibleCost
/-! Driver for C19 (and the plan part of C09):
`{"schema":<SchemaDesc>,"doc":<astjson document>,"op":"name","vars":{"v":true,…},"world":<node>}` with
`node = [[responseKey, runtimeType, node], …]`  →  the model's counters after PlanQuery and after executing the
world, the proved bounds evaluated on this input, and the out-of-fuel flag. -/
open Lean GqlModel GqlModel.Cost

namespace Driver.C19

partial def decWorld (j : Json) : Except String World := do
  let arr ← j.getArr?
  let rec go (l : List Json) : Except String Comps := do
    match l with
    | [] => return .nil
    | x :: rest =>
      let t ← x.getArr?
      match t.toList with
      | [k, rt, child] =>
        return .cons (← k.getStr?) (← rt.getStr?) (← decWorld child) (← go rest)
      | _ => throw "world entry must be [key, runtimeType, node]"
  return .node (← go arr.toList)

def decVars (j : Json) : Vars :=
  match j.getObjVal? "vars" with
  | .ok (.obj kvs) => kvs.toList.filterMap (fun (k, v) => match v with | .bool b => some (k, b) | _ => none)
  | _ => []

def topLevel (s : Schema) (doc : Document) (op : String) : Nat :=
  match selectOp s doc op with
  | .ok (_, ss) => 1 + inlSet ss + fragsSize (fragTable doc)
  | .error _ => 0

def handle (j : Json) : Except String Json := do
  let s ← Driver.SchemaJson.decSchema (← j.getObjVal? "schema")
  let doc ← Driver.AstJson.decDocument (← j.getObjVal? "doc")
  let op := match j.getObjVal? "op" with | .ok (.str s) => s | _ => ""
  let vars := decVars j
  let world ← match j.getObjVal? "world" with
    | .ok w => decWorld w
    | .error _ => pure (.node .nil)
  let pc := planCost s doc op
  let r := execPlan s doc op vars world
  let top := topLevel s doc op
  let fs := fragsSize (fragTable doc)
  let workBound := top + (r.log.map (fun en => (en.subs.map (fun ss => 1 + inlSet ss.1)).sum + fs)).sum
  let planErr := match selectOp s doc op with | .ok _ => false | .error _ => true
  -- validation side (c02b's model of the overlap rule): sizes, the proved bound, and on request the model's counters
  let wantOverlap := match j.getObjVal? "overlap" with | .ok (.bool b) => b | _ => false
  let ov := if wantOverlap then
      let st := (Validate.Overlap.overlapM s doc).1
      Json.mkObj [("nFC", Json.num st.nFC), ("cntFF", Json.num st.cntFF), ("cntBF", Json.num st.cntBF), ("oof", Json.bool st.oof)]
    else Json.null
  -- graph rules (c02b's model + the step counters of GqlModel/GraphCost.lean), on request
  let wantGraph := match j.getObjVal? "graph" with | .ok (.bool b) => b | _ => false
  let wantWork := match j.getObjVal? "graphWork" with | .ok (.bool b) => b | _ => true
  let gr := if wantGraph then
      let tbl := Validate.Graph.fragDefs doc
      let ops := Validate.Graph.opDefs doc
      let cr := Validate.Graph.cycleRunC tbl
      let nO := Validate.Graph.nOps doc
      let nF := Validate.Graph.nFragDefs doc
      let nN := Validate.Graph.docNodes doc
      let nS := Validate.Graph.docSpreads doc
      let nU := Validate.Graph.docUsages s doc
      Json.mkObj [
        ("ops", Json.arr (ops.map (fun o => Json.arr #[
          Json.num (Validate.Graph.recursivelyReferenced tbl o.sel).length,
          Json.num (Validate.Graph.recursiveUsages s tbl o).length,
          Json.num (Validate.Graph.fragmentSpreads o.sel).length])).toArray),
        ("frags", Json.arr (tbl.map (fun f => Json.arr #[
          Json.num (Validate.Graph.fragmentSpreads f.sel).length,
          Json.num (Validate.Graph.varUsagesFrag s f).length])).toArray),
        ("cyc", Json.arr #[Json.num cr.2.calls, Json.num cr.2.iters, Json.num cr.2.errLen, Json.num cr.1.errs.length]),
        ("cycOof", Json.bool cr.1.oof),
        ("cached", Json.num (if wantWork then Validate.Graph.graphWorkCached s doc else 0)),
        ("uncached", Json.num (if wantWork then Validate.Graph.graphWorkUncached s doc else 0)),
        ("boundCached", Json.num (Validate.Graph.graphBoundCached nO nF nN nS nU)),
        ("boundUncached", Json.num (Validate.Graph.graphBoundUncached nO nF nN)),
        ("sizes", Json.arr #[Json.num nO, Json.num nF, Json.num nN, Json.num nS, Json.num nU]),
        -- what the proposed verif sites (notes/agents/C19-graph-hooks.diff) count during ONE ValidateDocument with all
        -- rules (every helper result cached): FragmentSpreads steps (exact when fragment names are unique: every
        -- definition's set is asked for once), closure pops, closure spreads, cycle calls, cycle iterations,
        -- VariableUsages traversals (operations + distinct fragments some operation reaches)
        ("hooks", Json.arr #[
          Json.num ((ops.map (fun o => Validate.Graph.fsSteps o.sel)).sum + (tbl.map (fun f => Validate.Graph.fsSteps f.sel)).sum),
          Json.num ((ops.map (fun o => 1 + (Validate.Graph.recursivelyReferenced tbl o.sel).length)).sum),
          Json.num ((ops.map (fun o => Validate.Graph.nSpreadsSet o.sel +
            ((Validate.Graph.recursivelyReferenced tbl o.sel).map (fun f => Validate.Graph.nSpreadsSet f.sel)).sum)).sum),
          Json.num cr.2.calls, Json.num cr.2.iters,
          Json.num (ops.length + (ops.foldl (fun acc o => Validate.Graph.unionNew acc
            ((Validate.Graph.recursivelyReferenced tbl o.sel).map (·.name.value))) []).length)]),
        ("uniqueNames", Json.bool (Validate.Graph.uniqueFragNames doc))]
    else Json.null
  return Json.mkObj [
    ("plan", Json.arr #[Json.num pc.collect, Json.num pc.pms]),
    ("exec", Json.arr #[Json.num r.counts.collect, Json.num r.counts.pms]),
    ("top", Json.num top), ("workBound", Json.num workBound), ("fragsSize", Json.num fs),
    ("worldSize", Json.num world.size), ("dynamic", Json.bool (docDynamic doc)),
    ("planErr", Json.bool planErr), ("oof", Json.bool r.oof),
    ("overlapBound", Json.num (Validate.Overlap.overlapBound doc)),
    ("ffBound", Json.num ((2 * (Validate.Overlap.nSets doc * Validate.Overlap.nSpreadNames doc) : Nat))),
    ("bfBound", Json.num ((2 * (Validate.Overlap.nFrags doc * Validate.Overlap.nFrags doc) : Nat))),
    ("sizes", Json.arr #[Json.num (Validate.Overlap.nFieldsDoc doc), Json.num (Validate.Overlap.nSets doc),
      Json.num (Validate.Overlap.nSpreadNames doc), Json.num (Validate.Overlap.nFrags doc)]),
    ("locsDistinct", Json.bool (Validate.Overlap.locsDistinct doc)),
    ("overlap", ov), ("graph", gr),
    -- possible-type tables validation asks for (VerifSitePossibleTypesEnumerated after one ValidateDocument) and its bound
    ("ptValidation", Json.num (Validate.ptValidation s doc)),
    ("ptBound", Json.num ((2 * Validate.maxPossible s * Validate.nSelectionItems s doc : Nat)))]

end Driver.C19

def main : IO Unit := Driver.run (Driver.wrap Driver.C19.handle)
