import Driver.Common
import Driver.AstJson
import Driver.SchemaJson
import GqlModel.Validate.Local
import GqlModel.Validate.Graph
import GqlModel.Validate.Overlap
import GqlModel.Validate.TypeInfo
import GqlModel.Validate.All
import GqlModel.Validate.Side
import GqlModel.TypeInfoStacks
import GqlModel.TypeInfoBridge
import Generated.Tables
/-! Driver for C02 (validation rules).

`{"schema":<gq.SchemaDesc>, "doc":<astjson Document>}` →
`{"rules": {"<RuleName>": {"violated": bool,            -- S reports at least one error
                           "locs": [[start,end]…],       -- all locations of S's errors (flattened)
                           "S": [[[start,end]…]…],       -- S's errors, each = the locations of its nodes
                           "M": [[[start,end]…]…],       -- the rule as coded
                           "Mviolated": bool} …}}`
`{"introspection":true}` → the model's table of introspection types (cross-checked against the real type map).
`{"typeinfo":true,"schema":…,"doc":…}` → `{"recs":[…]}` the top-down TypeInfo of every observed node (unit c14ti);
  also `"mrecs"`: the rows the STACK MACHINE `GqlModel.TypeInfoStacks` (M of Props/C14TypeInfo) shows a wrapped visitor, in
  visiting order, `"mrecsSkip"`: the same when the visitor skips the nodes listed in `"skip":[[kind,start]…]`,
  `"argsUnique"` / `"executable"`: the premises of `typeinfo_eq_context` evaluated on this case;
  with `"shape":{"enter":b,"leave":b,"kindFuncs":{kind:[Kind?,Enter?,Leave?]},"enterKinds":[…],"leaveKinds":[…]}` (the
  wrapped visitor's `VisitorOptions`: which callbacks exist) also `"mevents"`: `[slot, row…]` for every callback that
  fires (slots K KE KL E L EM LM), M with that option set and the skip list — since Props/C14Bridge computed by the
  small-step MACHINE of `visitor.Visit` (`Visitor.runN`, fuel `fuelFor`) on the abstract tree `toNode K d` with the
  TypeInfo-wrapping visitor `withTypeInfo`; `"machineDone"`: the machine ended `done` with `TI.empty`; `"machineEqWalk"`:
  its events equal those of the structural walk `visitO` (theorem `machine_withTypeInfo_eq_visitO`);
  `"tonode"`: the abstract tree `toNode K d` as `[id, [[key,0] | [key,1,node] | [key,2,[node…]] …]]`, `"kinds"`: kind per id
  (compared with the tree harness/cmd/c14-style reflection builds from the real AST along the real QueryDocumentKeys). -/
open Lean GqlModel GqlModel.Validate

namespace Driver.C02

def encLoc (l : Loc) : Json := Json.arr #[Json.num l.start, Json.num l.stop]
def encErr (e : VErr) : Json := Json.arr (e.locs.map encLoc).toArray
def encErrs (es : List VErr) : Json := Json.arr (es.map encErr).toArray

/-- all registered rules: (name, M, S) — the local rules (c02a), the graph rules and the overlap rule (c02b) -/
def registry : List (String × RuleFn × RuleFn) :=
  let ms := specifiedRuleFns   -- the functions `validate` / `all_rules_iff` are about, in SpecifiedRules order
  let ss := localRulesS ++ graphRulesS ++ overlapRulesS
  ms.filterMap (fun (nm, m) => (ss.lookup nm).map (fun sp => (nm, m, sp)))

def encType (t : GType) : Json := Json.str t.render

def encArgs (as : List ArgDef) : Json :=
  Json.arr (as.map (fun a => Json.mkObj [("name", a.name), ("type", encType a.type)])).toArray

def encIntrospection : Json :=
  let encTd (td : TypeDef) : Json :=
    match td with
    | .object nm _ fs _ _ =>
      Json.mkObj [("kind", "OBJECT"), ("name", nm),
        ("fields", Json.arr (fs.map (fun f => Json.mkObj [("name", f.name), ("type", encType f.type), ("args", encArgs f.args)])).toArray)]
    | .enum nm vs _ => Json.mkObj [("kind", "ENUM"), ("name", nm), ("values", Json.arr (vs.map (fun v => Json.str v.name)).toArray)]
    | td => Json.mkObj [("kind", "OTHER"), ("name", td.name)]
  let encF (f : FieldDefS) : Json := Json.mkObj [("name", f.name), ("type", encType f.type), ("args", encArgs f.args)]
  Json.mkObj [("types", Json.arr (introspectionTypes.map encTd).toArray),
    ("meta", Json.arr #[encF schemaMetaField, encF typeMetaField, encF typeNameMetaField]),
    ("directives", Json.arr (Schema.specifiedDirectives.map (fun d =>
      Json.mkObj [("name", d.name), ("locations", Json.arr (d.locations.map Json.str).toArray), ("args", encArgs d.args)])).toArray)]

/-- op `typeinfo` (harness c14ti): one row per observed node,
`[kind, start, end, Type(), ParentType(), InputType(), FieldDef().Name, Directive().Name, Argument().Name]` -/
def encTIRec (r : TIRec) : Json :=
  let o (x : Option String) : Json := match x with | some v => Json.str v | none => Json.str "nil"
  Json.arr #[Json.str r.kind, Json.num r.loc.start, Json.num r.loc.stop,
    Json.str (renderOptType r.st.c.ty), o r.st.c.parent, Json.str (renderOptType r.st.input),
    o (r.st.c.fieldDef.map (·.name)), o (r.st.directive.map (·.name)), o r.st.argument]

/-- rows of the stack machine M (worker c14ti-proof; `GqlModel.TypeInfoStacks.mRecords`) -/
def encRow (r : TypeInfoStacks.Row) : Json :=
  Json.arr #[Json.str r.kind, Json.num r.start, Json.num r.stop, Json.str r.type, Json.str r.parent, Json.str r.input,
    Json.str r.fieldDef, Json.str r.directive, Json.str r.argument]

def decSkips (j : Json) : List (String × Nat) :=
  match j.getObjVal? "skip" with
  | .ok (.arr xs) => xs.toList.filterMap (fun x => match x with
      | .arr #[.str k, n] => (n.getNat?.toOption).map (fun st => (k, st))
      | _ => none)
  | _ => []

def decBool (j : Json) (k : String) : Bool := match j.getObjVal? k with | .ok (.bool b) => b | _ => false
def decStrs (j : Json) (k : String) : List String :=
  match j.getObjVal? k with
  | .ok (.arr xs) => xs.toList.filterMap (fun x => match x with | .str s => some s | _ => none)
  | _ => []

/-- the wrapped visitor's option set (which callbacks exist), as a logging `Opts` -/
def decShape (pol : TIRec → Bool) (sh : Json) : TypeInfoStacks.Opts (List (String × TIRec)) :=
  let kfs : List (String × (Bool × Bool × Bool)) :=
    match sh.getObjVal? "kindFuncs" with
    | .ok (.obj kvs) => kvs.toList.filterMap (fun (k, v) => match v with
        | .arr #[.bool a, .bool b, .bool c] => some (k, (a, b, c))
        | _ => none)
    | _ => []
  let em := decStrs sh "enterKinds"
  let lm := decStrs sh "leaveKinds"
  TypeInfoStacks.loggerOpts pol (decBool sh "enter", decBool sh "leave") (fun k => kfs.lookup k)
    (fun k => em.contains k) (fun k => lm.contains k)

partial def encNode : GqlModel.Visitor.Node → Json
  | .mk id slots => Json.arr #[Json.num id, Json.arr (slots.map encSlot).toArray]
where
  encSlot : GqlModel.Visitor.Slot → Json
    | .absent k => Json.arr #[Json.str k, Json.num 0]
    | .one k n => Json.arr #[Json.str k, Json.num 1, encNode n]
    | .many k n ns => Json.arr #[Json.str k, Json.num 2, Json.arr ((n :: ns).map encNode).toArray]

def handle (j : Json) : Except String Json := do
  match j.getObjVal? "introspection" with
  | .ok (.bool true) => return encIntrospection
  | _ => pure ()
  let s ← Driver.SchemaJson.decSchema (← j.getObjVal? "schema")
  let d ← Driver.AstJson.decDocument (← j.getObjVal? "doc")
  match j.getObjVal? "typeinfo" with
  | .ok (.bool true) =>
    let skips := decSkips j
    let pol : TIRec → Bool := fun r => skips.contains (r.kind, r.loc.start)
    let rows (p : TIRec → Bool) : Json := Json.arr (((TypeInfoStacks.mRecords s p d).map TypeInfoStacks.row).map encRow).toArray
    return Json.mkObj ([("recs", Json.arr ((tiRecords s d).map encTIRec).toArray),
      ("mrecs", rows TypeInfoStacks.noSkip),
      ("mrecsSkip", if skips.isEmpty || !(decBool j "wantSkipRecs") then Json.null else rows pol),
      ("argsUnique", TypeInfoStacks.argsUniqueB s), ("executable", TypeInfoStacks.isExecDoc d),
      ("tonode", encNode (TypeInfoStacks.toNode Generated.queryDocumentKeys d)),
      ("kinds", Json.arr (((TypeInfoStacks.docK Generated.queryDocumentKeys d).labels.map (fun l => Json.str l.kind))).toArray)] ++
      (match j.getObjVal? "shape" with
        | .ok sh =>
          let o := decShape pol sh
          let K := Generated.queryDocumentKeys
          let root := TypeInfoStacks.toNode K d
          let labels := (TypeInfoStacks.docK K d).labels      -- `docLab K d` = `labOf labels`, computed once
          let r := GqlModel.Visitor.runN (TypeInfoStacks.withTypeInfo (TypeInfoStacks.M s) (TypeInfoStacks.labOf labels) o)
            (GqlModel.Visitor.fuelFor root) (GqlModel.Visitor.init root) (TypeInfoStacks.TI.empty, [])
          let rowsOf (es : List (String × TIRec)) : List (String × TypeInfoStacks.Row) := es.map (fun e => (e.1, TypeInfoStacks.row e.2))
          let mrows := rowsOf r.2.2
          let encEvs (es : List (String × TypeInfoStacks.Row)) : Json := Json.arr (es.map (fun e =>
            match encRow e.2 with
            | .arr xs => Json.arr (#[Json.str e.1] ++ xs)
            | x => x)).toArray
          let done := match r.1 with | .done => true | _ => false
          let emptyTI := r.2.1.typeStack.isEmpty && r.2.1.parentTypeStack.isEmpty && r.2.1.inputTypeStack.isEmpty &&
            r.2.1.fieldDefStack.isEmpty && r.2.1.directive.isNone && !r.2.1.inDirective && r.2.1.argument.isNone
          [("mevents", encEvs mrows), ("machineDone", done && emptyTI),
           ("machineEqWalk", decide (mrows = rowsOf (TypeInfoStacks.mEvents s o d)))]
        | _ => [("mevents", Json.null)]))
  | _ => pure ()
  let rules := registry.map (fun (nm, m, sp) =>
    let es := sp s d
    let em := m s d
    (nm, Json.mkObj [("violated", !es.isEmpty), ("locs", Json.arr ((es.flatMap (·.locs)).map encLoc).toArray),
      ("S", encErrs es), ("M", encErrs em), ("Mviolated", !em.isEmpty)]))
  return Json.mkObj [("rules", Json.mkObj rules), ("uniqueFragNames", Graph.uniqueFragNames d), ("uniqueArgNames", Overlap.uniqueArgNames d),
    ("validate", encErrs (validate s d)),
    ("side", Json.mkObj [("schemaInputsOk", schemaInputsOkB s), ("abstractInhabited", abstractInhabitedB s),
                         ("sideB", Overlap.cohB s d (Overlap.envM s d) && Overlap.argsFaithfulB s d (Overlap.envM s d)
                                     && Overlap.apartB d (Graph.fragDefs d))]),
    ("typeMap", Json.arr (((s.types.map (·.name)) ++ introspectionTypes.map (·.name)).filter s.known |>.map Json.str).toArray)]

end Driver.C02

def main : IO Unit := Driver.run (Driver.wrap Driver.C02.handle)
