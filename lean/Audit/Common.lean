import Lean
/-! `#audit_module M` prints one line `AUDIT <theorem> [axioms…]` for every (non-auxiliary) theorem
declared in module `M`. The check driver parses these lines: obligations = lines, discharged = lines
whose axioms ⊆ {propext, Classical.choice, Quot.sound}. `sorryAx` shows up here like any other axiom. -/
open Lean Elab Command

elab "#audit_module " id:ident : command => do
  let env ← getEnv
  let modName := id.getId
  let some modIdx := env.getModuleIdx? modName | throwError "unknown module {modName}"
  let consts := env.header.moduleData[modIdx.toNat]!.constNames
  let mut n : Nat := 0
  for c in consts do
    if c.isInternalDetail then continue
    match env.find? c with
    | some (.thmInfo _) =>
      let axs ← Lean.collectAxioms c
      let axs := axs.qsort (fun a b => a.toString < b.toString)
      logInfo m!"AUDIT {c} {axs.toList}"
      n := n + 1
    | _ => pure ()
  logInfo m!"AUDIT-TOTAL {modName} {n}"
