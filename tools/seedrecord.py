#!/usr/bin/env python3
"""Records the outcome of tools/seedeval.sh logs (/tmp/se_<id>_<n>.log) into seeded/<id>-<n>/meta.json
under "evaluation" (a list: one entry per evaluation round) and regenerates the table in DESIGN.md."""
import json, os, re, sys, glob, time
ROOT = os.path.dirname(os.path.dirname(os.path.abspath(__file__)))
label = sys.argv[1] if len(sys.argv) > 1 else "round"
for log in sorted(glob.glob("/tmp/se_C*_*.log")):
    m = re.match(r".*/se_(C\d+)_(\d+)\.log", log)
    if not m: continue
    d = os.path.join(ROOT, "seeded", f"{m.group(1)}-{m.group(2)}")
    if not os.path.isdir(d): continue
    txt = open(log).read()
    checks = {}
    for cm in re.finditer(r"CHECK (C\d+): (.*?)(?=\nCHECK |\Z)", txt, re.S):
        body = cm.group(2)
        checks[cm.group(1)] = "VIOLATION" if "VIOLATION" in body else ("OK" if "OK property" in body else "CHECK-ERROR" if "CHECK-ERROR" in body else "?")
    if not checks: continue
    meta = json.load(open(os.path.join(d, "meta.json")))
    ev = meta.setdefault("evaluation", [])
    entry = {"round": label, "suite": "green" if "SUITE: green" in txt else "see log", "demo_fails_with_change": "demo-with-change rc=1" in txt,
             "demo_passes_without": "demo-on-unchanged rc=0" in txt, "checks": checks}
    if not ev or ev[-1]["checks"] != checks or ev[-1]["round"] != label:
        ev.append(entry)
    json.dump(meta, open(os.path.join(d, "meta.json"), "w"), indent=1)
rows = []
for d in sorted(glob.glob(os.path.join(ROOT, "seeded", "C*-*"))):
    meta = json.load(open(os.path.join(d, "meta.json")))
    ev = meta.get("evaluation", [])
    first = ev[0]["checks"] if ev else {}
    last = ev[-1]["checks"] if ev else {}
    def fmt(c): return ", ".join(f"{k}: {v}" for k, v in sorted(c.items())) or "not evaluated yet"
    what = (meta.get("what") or "").replace("|", "/").replace("\n", " ")[:170]
    rows.append(f"| {os.path.basename(d)} | {what} | {fmt(first)} | {fmt(last) if len(ev) > 1 else ''} |")
table = "| seed | change | checks, first evaluation | after strengthening |\n|---|---|---|---|\n" + "\n".join(rows)
p = os.path.join(ROOT, "DESIGN.md")
s = open(p).read()
if "SEEDED_TABLE_PLACEHOLDER" in s:
    s = s.replace("SEEDED_TABLE_PLACEHOLDER", "<!-- seeded-table-begin -->\n" + table + "\n<!-- seeded-table-end -->")
else:
    s = re.sub(r"<!-- seeded-table-begin -->.*?<!-- seeded-table-end -->", "<!-- seeded-table-begin -->\n" + table.replace("\\", "\\\\") + "\n<!-- seeded-table-end -->", s, flags=re.S)
open(p, "w").write(s)
print(table)
