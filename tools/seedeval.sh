#!/bin/bash
# usage: tools/seedeval.sh <seed dir containing patch.diff, demo, meta.json> <property id> [more property ids]
# Confirms a seeded change (compiles, suite green, demo fails with / passes without) on a scratch copy of /repo,
# then runs the given checks against the copy (VERIF_REPO) and prints their verdicts.
set -u
export GOFLAGS=-mod=mod GOPROXY=off GOSUMDB=off GOTOOLCHAIN=local
src="$1"; shift
tag=$(echo "$src" | tr '/' '_' | tail -c 40)
copy=/tmp/seedeval$tag
rm -rf "$copy"; cp -r /repo "$copy"; rm -rf "$copy/_seed"
cd "$copy" || exit 2
demo=$(ls "$src"/demo*_test.go 2>/dev/null | head -1)
run_demo() { if [ -n "$demo" ]; then cp "$demo" ./zz_seed_demo_test.go; go test -vet=off -count=1 -run "$(grep -o 'func Test[A-Za-z0-9_]*' zz_seed_demo_test.go | sed 's/func //' | paste -sd'|')" . >/tmp/demo$tag.out 2>&1; rc=$?; rm -f zz_seed_demo_test.go; return $rc; else (cd "$src/demo" 2>/dev/null && echo "program demo not auto-run"); return 3; fi; }
run_demo; echo "demo-on-unchanged rc=$? (expect 0)"
if ! git apply --recount "$src/patch.diff" 2>/tmp/apply$tag.err; then echo "PATCH-DOES-NOT-APPLY: $(head -2 /tmp/apply$tag.err)"; cd /; rm -rf "$copy"; exit 3; fi
go build ./... || { echo BUILD-FAILED; cd /; rm -rf "$copy"; exit 3; }
for t in 1 2 3; do go test -vet=off -count=1 ./... >/tmp/suite$tag.out 2>&1 && break; grep -- '--- FAIL' /tmp/suite$tag.out | grep -qv TestContextDeadline && break; done
if grep -q -- '--- FAIL' /tmp/suite$tag.out; then echo "SUITE: $(grep -- '--- FAIL' /tmp/suite$tag.out | head -3)"; else echo "SUITE: green"; fi
run_demo; echo "demo-with-change rc=$? (expect non-zero)"
cd /verif
for p in "$@"; do
  out=$(env VERIF_REPO="$copy" ${SEED_TABLES:+VERIF_TABLES=1} timeout 1800 ./check "$p" 2>&1 | grep -E "^(VIOLATION|OK|CHECK-ERROR|KNOWN)" | head -4)
  echo "CHECK $p: $out"
done
rm -rf "$copy"
