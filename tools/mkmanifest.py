#!/usr/bin/env python3
"""Regenerates MANIFEST.json from checks.json (single source of truth for the per-property claims)."""
import json, os
ROOT = os.path.dirname(os.path.dirname(os.path.abspath(__file__)))
cfg = json.load(open(os.path.join(ROOT, "checks.json")))
d = os.path.join(ROOT, "checks.d")
if os.path.isdir(d):
    for fn in sorted(os.listdir(d)):
        if fn.endswith(".json"):
            cfg["checks"][fn[:-5]] = json.load(open(os.path.join(d, fn)))
props = [json.loads(l) for l in open(os.path.join(ROOT, "properties.jsonl"))]
checks, na = [], []
for p in props:
    pid = p["id"]
    c = cfg["checks"].get(pid)
    if c is None or c.get("disabled") or pid not in cfg.get("claimed", []):
        na.append({"property_id": pid, "reason": cfg.get("not_applicable", {}).get(pid, "no check registered yet (work in progress; see DESIGN.md section 4)")})
        continue
    checks.append({
        "property_id": pid,
        "quick_cmd": f"./check {pid} --tier quick",
        "thorough_cmd": f"./check {pid} --tier thorough",
        "evidence_file": f"/verif/evidence/{pid}.json",
        "replay_cmd_template": f"./check {pid} --replay {{path}}",
        "engine": c.get("engine", "lean4+go-correspondence"),
        "level_claimed": {"category": c["level"], "text": c.get("level_text", ""), "design_ref": c.get("design_ref", f"DESIGN.md §4 {pid}")},
        "level_note": c.get("level_note", "; ".join(c.get("trusted_base", []) + c.get("assumptions", []))),
        "technique": c.get("technique", "Lean 4 theorems about a hand-written model + differential correspondence against the real code"),
    })
m = {
    "version": 1,
    "setup_cmd": "./setup.sh",
    "hooks": {
        "guard": "verif",
        "enable": "go build -tags verif (the harness module replaces github.com/graphql-go/graphql by /repo)",
        "baseline_off_cmd": "cd /repo && GOFLAGS=-mod=mod GOPROXY=off GOSUMDB=off GOTOOLCHAIN=local go test -json -vet=off -count=1 -timeout 25m ./...",
        "source_commits": cfg.get("hook_commits", []),
        "add_only": True,
    },
    "engines": [
        {"name": "lean4+go-correspondence", "path": "/verif/lean, /verif/harness, /verif/check",
         "serves_properties": [c["property_id"] for c in checks],
         "kind_free_text": "Lean 4 project (models GqlModel/, lemmas GqlProofs/, property theorems Props/, tables Generated/ regenerated from /repo by harness/cmd/extract, one core-only driver executable per property) + Go harness built per run from /repo's working tree with -tags verif that runs the real code and the model driver on the same generated inputs and diffs property-determined observables"}
    ],
    "checks": checks,
    "not_applicable": na,
    "notes": cfg.get("notes", ""),
}
json.dump(m, open(os.path.join(ROOT, "MANIFEST.json"), "w"), indent=1)
print("checks:", [c["property_id"] for c in checks], "not claimed:", [n["property_id"] for n in na])
