#!/bin/bash
# usage: tools/seedimport.sh Cxx N [extra property ids]   — imports /tmp/wt/Cxx-N/_seed as seeded/Cxx-N, confirms and evaluates it
# (tools/seedeval.sh on a scratch copy of /repo), then removes the scratch worktree.
p=$1; n=$2; shift 2
src=/tmp/wt/$p-$n/_seed
dst=/verif/seeded/$p-$n
[ -f "$src/patch.diff" ] || { echo "no seed at $src"; exit 2; }
mkdir -p "$dst"; cp "$src"/patch.diff "$src"/meta.json "$dst"/; cp "$src"/demo*_test.go "$dst"/ 2>/dev/null
/verif/tools/seedeval.sh "$dst" $p "$@" > /tmp/se_${p}_${n}.log 2>&1
git -C /repo worktree remove --force /tmp/wt/$p-$n 2>/dev/null
grep -E "^(demo|SUITE|CHECK|VIOLATION|OK|PATCH|BUILD)" /tmp/se_${p}_${n}.log | cut -c1-220
